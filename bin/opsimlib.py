# opsim build + run support (python3 stdlib only).
# Builds libopus variants from /repo's *current working tree* into /verif/build/<variant>
# (cache keyed by a hash of every file the build can see), compiles the simulator
# sources against each variant and links one `opsim` binary per variant.
import hashlib, json, os, shutil, subprocess, sys, time
from concurrent.futures import ThreadPoolExecutor

VERIF = os.path.dirname(os.path.dirname(os.path.abspath(__file__)))
REPO = os.environ.get("OPSIM_REPO", "/repo")
BUILD = os.environ.get("OPSIM_BUILD", os.path.join(VERIF, "build"))
SIM = os.path.join(VERIF, "sim")
NPROC = os.cpu_count() or 8

SEAM_DEFS = "-DCUSTOM_SUPPORT -DOVERRIDE_celt_fatal -I%s/seams" % SIM
WRAP = "-Wl,--wrap=rand -Wl,--wrap=opus_select_arch -Wl,--wrap=abort"

# name -> description of how libopus and the simulator are compiled
VARIANTS = {
    "asan": dict(
        cc="clang", cxx="clang++",
        cflags="-O2 -g1 -fno-omit-frame-pointer -fsanitize=address,bounds -fno-sanitize-recover=bounds " + SEAM_DEFS,
        cmake=["-DOPUS_ASSERTIONS=ON", "-DOPUS_FORTIFY_SOURCE=OFF", "-DOPUS_STACK_PROTECTOR=OFF"],
        simflags="-O1 -g1 -fno-omit-frame-pointer -fsanitize=address,bounds -fno-sanitize-recover=bounds",
        ldflags="-fsanitize=address,bounds " + WRAP),
    "asan-fuzzing": dict(
        cc="clang", cxx="clang++",
        cflags="-O2 -g1 -fno-omit-frame-pointer -fsanitize=address,bounds -fno-sanitize-recover=bounds " + SEAM_DEFS,
        cmake=["-DOPUS_ASSERTIONS=ON", "-DOPUS_FUZZING=ON", "-DOPUS_FORTIFY_SOURCE=OFF", "-DOPUS_STACK_PROTECTOR=OFF"],
        simflags="-O1 -g1 -fno-omit-frame-pointer -fsanitize=address,bounds -fno-sanitize-recover=bounds -DOPSIM_FUZZING",
        ldflags="-fsanitize=address,bounds " + WRAP),
    "fixed-asan": dict(
        cc="clang", cxx="clang++",
        cflags="-O2 -g1 -fno-omit-frame-pointer -fsanitize=address,bounds -fno-sanitize-recover=bounds " + SEAM_DEFS,
        cmake=["-DOPUS_ASSERTIONS=ON", "-DOPUS_FIXED_POINT=ON", "-DOPUS_FORTIFY_SOURCE=OFF", "-DOPUS_STACK_PROTECTOR=OFF"],
        simflags="-O1 -g1 -fno-omit-frame-pointer -fsanitize=address,bounds -fno-sanitize-recover=bounds -DOPSIM_FIXED",
        ldflags="-fsanitize=address,bounds " + WRAP),
    "checkasm": dict(
        cc="clang", cxx="clang++",
        cflags="-O2 -g1 -fno-omit-frame-pointer -fsanitize=address,bounds -fno-sanitize-recover=bounds " + SEAM_DEFS,
        cmake=["-DOPUS_ASSERTIONS=ON", "-DOPUS_FIXED_POINT=ON", "-DOPUS_CHECK_ASM=ON", "-DOPUS_FORTIFY_SOURCE=OFF", "-DOPUS_STACK_PROTECTOR=OFF"],
        simflags="-O1 -g1 -fno-omit-frame-pointer -fsanitize=address,bounds -fno-sanitize-recover=bounds -DOPSIM_FIXED",
        ldflags="-fsanitize=address,bounds " + WRAP),
    # what ships: gcc, the baseline flags, hardening on, assertions off
    "ship": dict(
        cc="gcc", cxx="g++",
        cflags="-O2 -g " + SEAM_DEFS,
        cmake=[],
        simflags="-O1 -g",
        ldflags=WRAP),
    # fixed-point, no sanitizer (valgrind-compatible; used to inspect replays)
    "fixed-ship": dict(
        cc="gcc", cxx="g++",
        cflags="-O2 -g " + SEAM_DEFS,
        cmake=["-DOPUS_FIXED_POINT=ON"],
        simflags="-O1 -g -DOPSIM_FIXED",
        ldflags=WRAP),
    # compile-only TSan instrumentation; the runtime is ours (sim/tsanrt.cc)
    "memtrace": dict(
        cc="clang", cxx="clang++",
        cflags="-O1 -g1 -fno-omit-frame-pointer -fsanitize=thread " + SEAM_DEFS,
        cmake=["-DOPUS_FORTIFY_SOURCE=OFF", "-DOPUS_STACK_PROTECTOR=OFF"],
        simflags="-O1 -g1 -fno-omit-frame-pointer -DOPSIM_MEMTRACE",
        ldflags=WRAP + " -Wl,--wrap=memcpy -Wl,--wrap=memmove -Wl,--wrap=memset -Wl,--wrap=pthread_mutex_lock -Wl,--wrap=pthread_mutex_unlock -Wl,--wrap=pthread_once -lpthread"),
}

REPO_DIRS = ["src", "celt", "silk", "include", "dnn", "cmake"]
REPO_FILES = ["CMakeLists.txt", "opus_sources.mk", "celt_sources.mk", "silk_sources.mk",
              "opus_headers.mk", "celt_headers.mk", "silk_headers.mk", "lpcnet_sources.mk",
              "lpcnet_headers.mk", "package_version", "meson_options.txt"]


def log(*a):
    print("[opsim]", *a, file=sys.stderr, flush=True)


def _walk(root, rels):
    out = []
    for r in rels:
        p = os.path.join(root, r)
        if os.path.isfile(p):
            out.append(p)
        elif os.path.isdir(p):
            for d, dn, fn in os.walk(p):
                dn.sort()
                for f in sorted(fn):
                    if f.endswith((".o", ".a", ".so", ".pyc", ".pth", ".bin")):
                        continue
                    out.append(os.path.join(d, f))
    return out


def tree_hash(paths, extra=""):
    h = hashlib.sha256()
    h.update(extra.encode())
    for p in sorted(paths):
        try:
            with open(p, "rb") as f:
                data = f.read()
        except OSError:
            continue
        h.update(p.encode())
        h.update(b"\0")
        h.update(hashlib.sha256(data).digest())
    return h.hexdigest()


_repo_hash_cache = None


def repo_hash():
    global _repo_hash_cache
    if _repo_hash_cache is None:
        _repo_hash_cache = tree_hash(_walk(REPO, REPO_DIRS + REPO_FILES))
    return _repo_hash_cache


def sim_sources():
    return sorted(os.path.join(SIM, f) for f in os.listdir(SIM) if f.endswith((".cc", ".c")))


def sim_hash():
    return tree_hash(_walk(SIM, ["."]))


def run(cmd, **kw):
    return subprocess.run(cmd, stdout=subprocess.PIPE, stderr=subprocess.STDOUT, text=True, **kw)


def build_lib(variant):
    """(Re)build libopus for a variant from /repo's working tree. Returns path of libopus.a or None."""
    v = VARIANTS[variant]
    vdir = os.path.join(BUILD, variant)
    odir = os.path.join(vdir, "opus")
    stamp = os.path.join(vdir, "lib.stamp")
    want = repo_hash() + json.dumps(v, sort_keys=True)
    want = hashlib.sha256(want.encode()).hexdigest()
    lib = os.path.join(odir, "libopus.a")
    if os.path.exists(stamp) and open(stamp).read() == want and os.path.exists(lib):
        return lib
    shutil.rmtree(vdir, ignore_errors=True)
    os.makedirs(odir)
    t0 = time.time()
    cfg = ["cmake", "-G", "Ninja", "-S", REPO, "-B", odir,
           "-DCMAKE_C_COMPILER=" + v["cc"], "-DCMAKE_BUILD_TYPE=RelWithDebInfo",
           "-DCMAKE_C_FLAGS_RELWITHDEBINFO=", "-DCMAKE_C_FLAGS=-Wno-error -w " + v["cflags"],
           "-DOPUS_BUILD_TESTING=OFF", "-DOPUS_BUILD_PROGRAMS=OFF", "-DOPUS_BUILD_SHARED_LIBRARY=OFF",
           "-DBUILD_SHARED_LIBS=OFF"] + v["cmake"]
    r = run(cfg)
    if r.returncode != 0:
        log("cmake configure failed for", variant, "\n" + r.stdout[-3000:])
        return None
    r = run(["cmake", "--build", odir, "--target", "opus", "-j", str(NPROC)])
    if r.returncode != 0 or not os.path.exists(lib):
        log("libopus build failed for", variant, "\n" + r.stdout[-4000:])
        return None
    with open(stamp, "w") as f:
        f.write(want)
    log("built libopus[%s] in %.1fs" % (variant, time.time() - t0))
    return lib


def build_sim(variant):
    """Compile simulator sources against the variant and link opsim. Returns binary path or None."""
    lib = build_lib(variant)
    if lib is None:
        return None
    v = VARIANTS[variant]
    vdir = os.path.join(BUILD, variant)
    odir = os.path.join(vdir, "opus")
    sdir = os.path.join(vdir, "sim")
    os.makedirs(sdir, exist_ok=True)
    binp = os.path.join(vdir, "opsim")
    stamp = os.path.join(vdir, "sim.stamp")
    want = hashlib.sha256((open(os.path.join(vdir, "lib.stamp")).read() + sim_hash()).encode()).hexdigest()
    if os.path.exists(stamp) and open(stamp).read() == want and os.path.exists(binp):
        return binp
    t0 = time.time()
    inc = ["-I" + os.path.join(REPO, d) for d in ("include", "src", "celt", "silk", "silk/float", "silk/fixed")]
    inc += ["-I" + odir, "-I" + SIM, "-I" + os.path.join(SIM, "seams")]
    common = ["-DHAVE_CONFIG_H", "-DCUSTOM_SUPPORT", "-DOVERRIDE_celt_fatal", "-DOPSIM_VARIANT=\"%s\"" % variant,
              "-DOPSIM_VERIF_DIR=\"%s\"" % VERIF] + inc + v["simflags"].split()
    libdefs = []
    try:
        for line in open(os.path.join(odir, "build.ninja")):
            line = line.strip()
            if line.startswith("DEFINES = ") and "OPUS_BUILD" in line:
                libdefs = [d for d in line[len("DEFINES = "):].split() if not d.startswith("-D_FORTIFY_SOURCE")]
                break
    except OSError:
        pass
    srcs = sim_sources()
    objs = []
    jobs = []
    for s in srcs:
        base = os.path.basename(s)
        if variant != "memtrace" and base in ("tsanrt.cc",):
            continue
        o = os.path.join(sdir, base + ".o")
        objs.append(o)
        if s.endswith(".cc"):
            cmd = [v["cxx"], "-std=c++17", "-w"] + common + ["-c", s, "-o", o]
        else:
            cmd = [v["cc"], "-w"] + libdefs + common + ["-c", s, "-o", o]
        jobs.append(cmd)
    with ThreadPoolExecutor(NPROC) as ex:
        res = list(ex.map(run, jobs))
    for r, cmd in zip(res, jobs):
        if r.returncode != 0:
            log("sim compile failed [%s]: %s\n%s" % (variant, " ".join(cmd[-3:]), r.stdout[-6000:]))
            return None
    cmd = [v["cxx"]] + objs + [lib] + v["ldflags"].split() + ["-lm", "-lpthread", "-o", binp]
    r = run(cmd)
    if r.returncode != 0:
        log("sim link failed [%s]\n%s" % (variant, r.stdout[-6000:]))
        return None
    with open(stamp, "w") as f:
        f.write(want)
    log("built opsim[%s] in %.1fs" % (variant, time.time() - t0))
    return binp


def build_many(variants):
    """Build several variants concurrently; returns {variant: path or None}."""
    out = {}
    with ThreadPoolExecutor(max(1, min(3, len(variants)))) as ex:
        for v, p in zip(variants, ex.map(build_sim, variants)):
            out[v] = p
    return out
