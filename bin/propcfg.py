# Per-property configuration of the opsim driver: variants, budgets, evidence texts.
VARIANT_ID = {"asan": 1, "asan-fuzzing": 2, "fixed-asan": 3, "checkasm": 4, "ship": 5, "memtrace": 6, "fixed-ship": 7}

REAL_CODEC = ["libopus encoder/decoder/multistream/projection objects (real code, rebuilt from /repo working tree)",
              "range coder, SILK, CELT, packet parser, repacketizer, extensions (real code)"]
SIM_COMMON = ["signal sources (closed-form seeded generators)", "control plane (seeded ctl schedule)",
              "link / MTU / receiver policy (seeded)", "heap allocator via CUSTOM_SUPPORT (seeded fill, failure)",
              "rand() behind --wrap=rand (seeded per object)", "CPU level behind --wrap=opus_select_arch (seeded per object)",
              "celt_fatal via OVERRIDE_celt_fatal (recorded, run ends)"]
ASSUME_COMMON = ["the simulator's own oracles and the independent RFC 6716 framing model are trusted",
                 "exploration is seeded sampling of plans (operation + fault sequences), not exhaustive",
                 "DRED / OSCE / custom modes are not built (repo default configuration)"]

PROPS = {
    "C02": dict(
        level="exploration",
        variants=dict(quick=[("asan", 1), ("asan-fuzzing", 1)], thorough=[("asan", 2), ("asan-fuzzing", 2), ("fixed-asan", 1)]),
        must_build=["asan"],
        runs=dict(quick=10000, thorough=150000), secs=dict(quick=45, thorough=600),
        rule="one evaluation = one simulated session (plan of ENCNEW/DECNEW/SRC/CTL/ENC ops generated from the run seed: encoder kind/rate/channels/application, "
             "2-3 decoder replicas at other rates/channels/CPU levels, control-plane churn and max_data_bytes churn between frames, FUZZING buggify decisions in the asan-fuzzing variant; four in ten multistream sessions are 'tight': up to 12 streams, buffers in the bytes right above the smallest packet the streams can form, 100 ms frames over-represented); "
             "non-trivial = at least one control change took effect after the first frame and >=5 encode/decode calls succeeded; distinct = distinct 64-bit signature over the sequence of "
             "(TOC config+stereo, frame duration index, tiny-packet flag, small-MTU flag, ctl request/outcome)",
        fault_keys=["ctl_applied", "ctl_rejected", "mtu_le4", "enc_invalid_args", "enc_refused"],
        probes_required=["mode_silk", "mode_hybrid", "mode_celt", "mode_transition", "code3_packet", "tiny_packet", "enc_buffer_just_above_minimum", "enc_buffer_just_above_minimum_8plus_streams_100ms"],
        real=REAL_CODEC, simulated=SIM_COMMON,
        assumptions=ASSUME_COMMON + ["the clause about the frozen RFC 6716 reference decoder is not covered (no reference decoder offline)"],
    ),
    "C05": dict(
        level="exploration",
        variants=dict(quick=[("asan", 1)], thorough=[("asan", 3), ("fixed-asan", 1)]),
        must_build=["asan"],
        runs=dict(quick=6000, thorough=150000), secs=dict(quick=45, thorough=600),
        rule="one evaluation = one simulated session with rate-control churn (CBR/CVBR/VBR toggles, bitrate sweeps incl. AUTO/MAX, max_data_bytes 1..4000 with MTU collapses to 1-10 bytes) "
             "between frames of every duration; oracles: exact-size output block (ASan) + return range, exact CBR size formula, BITRATE_MAX fill, multistream CBR constancy, constrained-VBR "
             "long-term average, and the full C02 validity/lock-step oracle on every packet; non-trivial = a control change took effect after the first frame and >=5 calls succeeded; "
             "distinct = 64-bit signature over (TOC, duration, tiny flag, small-MTU flag, ctl outcome) sequence",
        fault_keys=["ctl_applied", "ctl_rejected", "mtu_le4", "enc_invalid_args", "enc_refused"],
        probes_required=["cbr_checked", "cbr_max_fill", "ms_cbr_checked", "ms_cbr_exact_checked", "cvbr_checked", "cvbr_switching_checked", "mode_silk", "mode_hybrid", "mode_celt"],
        real=REAL_CODEC, simulated=SIM_COMMON,
        assumptions=ASSUME_COMMON + ["CBR size accepted when within 0.5+1/12 byte of bitrate*duration/8 (the code rounds in 1/12-byte units)"],
    ),
    "C01": dict(
        level="exploration",
        variants=dict(quick=[("asan", 1), ("asan-fuzzing", 1)], thorough=[("asan", 2), ("asan-fuzzing", 2), ("fixed-asan", 1)]),
        must_build=["asan"],
        runs=dict(quick=8000, thorough=200000), secs=dict(quick=50, thorough=700),
        rule="one evaluation = one simulated receiving session: a decoder of seeded kind (single / multistream with arbitrary mapping / projection, seeded rate, channels, CPU level) fed 15-400 "
             "decode calls whose packets come from live encoders in the same process after the simulated link has faulted them (drop, dup, reorder, truncate, bit flips in header or body, byte set, "
             "append, splice, TOC swap, cross-session packet, structured garbage, random bytes) with hostile call shapes (frame_size 0..1 s, fec in {-1,0,1,2}, len 0/short, NULL data) and decoder "
             "ctl churn (reset, gain, complexity); non-trivial = at least one link fault fired and >=5 decode calls returned samples; distinct = 64-bit signature over the per-call sequence of "
             "(call shape, frame_size class, fec flag, result class, TOC config, fault-kind mask)",
        fault_keys=["f_drop", "f_dup", "f_trunc", "f_flip", "f_set", "f_append", "f_splice", "f_tocswap", "f_cross", "f_garbage", "f_random", "f_reorder", "f_repeat", "d_reset", "d_gain"],
        probes_required=["valid_framing_checked", "rx_plc", "rx_fec", "rx_decoded", "rx_err-1", "rx_err-2", "rx_err-4", "mode_silk", "mode_hybrid", "mode_celt", "inspected"],
        real=REAL_CODEC, simulated=SIM_COMMON,
        assumptions=ASSUME_COMMON + ["frame_size above one second and NULL data with len>0 on multistream/projection decoders are outside the claim"],
    ),
    "C07": dict(
        level="exploration",
        variants=dict(quick=[("asan", 1)], thorough=[("asan", 3), ("fixed-asan", 1)]),
        must_build=["asan"],
        runs=dict(quick=12000, thorough=400000), secs=dict(quick=45, thorough=500),
        rule="one evaluation = one middlebox session: a packet pool (live encoder output, packets built by the simulator's own framer with codes 0-3 / CBR / VBR / boundary frame sizes / 1-48 frames / "
             "zero, arbitrary and extension padding, and corrupted variants) driven through 1-3 repacketizers by seeded INIT/CAT/OUT/OUT_RANGE sequences (each OUT with generous, exact and too-small maxlen) "
             "and through pad / unpad / multistream pad / unpad; faults = invalid or incompatible packet offered, >120 ms, bad ranges, too-small buffers, new_len<len; oracle = frame-list model, "
             "independent framing model, twin decoders; non-trivial = a fault fired (rejection / bad range / too-small) and >=5 successful operations; distinct = signature over (TOC, frame count, output code, rejection) sequence",
        fault_keys=["cat_invalid_offered", "cat_toc_incompatible", "cat_over_120ms", "out_bad_range", "out_too_small", "pool_invalid"],
        probes_required=["cat_ok", "out_ok", "out_code3_multi", "out_len_ge252", "pad_ok", "unpad_ok", "mspad_ok", "msunpad_ok", "decode_compared", "syn_code0", "syn_code1", "syn_code2", "syn_code3", "pool_real"],
        real=REAL_CODEC, simulated=SIM_COMMON + ["packet pool and frame-list model", "independent framer (model_build)"],
        assumptions=ASSUME_COMMON + ["lifetime misuse (freeing a packet still referenced by the repacketizer) is outside the claim"],
    ),
    "C16": dict(
        level="exploration",
        variants=dict(quick=[("asan", 1)], thorough=[("asan", 3), ("fixed-asan", 1)]),
        must_build=["asan"],
        runs=dict(quick=12000, thorough=300000), secs=dict(quick=45, thorough=500),
        rule="one evaluation = one middlebox session over packet extensions: seeded extension lists (ids 3-127, 1-48 frames, lacing-boundary payload lengths, repeat-eligible and non-eligible frame patterns, "
             "arbitrary order) serialised with the library, parsed back through parse / parse_ext / count / count_ext / iterator, with capacity faults (exact, -1, -k, 0 bytes), illegal arguments, corrupted and random "
             "padding bytes, and carriage of extension-bearing packets through repacketizer merges and splits (incl. splits inside a multi-frame packet and extensions added at output); "
             "non-trivial = a fault fired (small buffer / illegal argument / corrupted bytes / split inside a packet) and >=5 successful operations; distinct = signature over (frames, list size, pattern, fuzz kind/outcome, carriage shape) sequence",
        fault_keys=["ext_small_buffer", "ext_bad_args", "ext_fuzzed", "carriage_split_inside", "ext_parse_rejected"],
        probes_required=["ext_roundtrip", "ext_repeat_pattern", "ext_lacing_ge255", "ext_fuzz_parsed", "carriage_out", "carriage_added", "carriage_checked_nonempty", "ext_frame_limited_iterations", "ext_find_checked"],
        real=REAL_CODEC, simulated=SIM_COMMON + ["extension-list model", "packet pool and frame-list model"],
        assumptions=ASSUME_COMMON + ["the list<->bytes bijection is exercised at exploration strength only (it is a pure function; the simulated part is capacity faults, corruption and repacketizer carriage)"],
    ),
    "C12": dict(
        level="exploration",
        variants=dict(quick=[("ship", 3), ("asan", 1)], thorough=[("ship", 3), ("asan", 2), ("asan-fuzzing", 2)]),
        must_build=["ship"],
        runs=dict(quick=5000, thorough=120000), secs=dict(quick=50, thorough=600),
        rule="one evaluation = one history (ctl / encode / decode / loss steps on a subject encoder or decoder of seeded kind) executed TWICE under two environments that differ in heap fill pattern, "
             "block addresses, stack residue and bystander objects, with state faults at seeded points: SNAP (memcpy of exactly get_size bytes to another address), MIGRATE (continue on the copy, original scribbled and freed), "
             "RESET (OPUS_RESET_STATE vs a freshly initialised object with the same settings); oracle = every twin (never-moved replica, clones, migrated, fresh) returns identical codes, packets/PCM bits, final ranges and getters at every step, "
             "and the two passes produce identical logs; non-trivial = at least one state fault fired and >=5 encode/decode steps succeeded; distinct = signature over subject kind and the per-step result log",
        fault_keys=["snap", "migrate", "reset_fresh", "dec_loss_steps"],
        probes_required=["subject_encoder", "subject_decoder", "snap", "migrate", "reset_fresh", "ctl_applied"],
        real=REAL_CODEC, simulated=SIM_COMMON + ["object memory (simulator-owned exact-size blocks, poison patterns, addresses)", "stack residue (pre-scribbled)", "bystander objects"],
        assumptions=ASSUME_COMMON + ["uninitialised reads that never influence an output are not detected (no MSan); copying during a call from another thread is a contract violation and not simulated"],
    ),
}

PROPS["C14"] = dict(
    level="exploration",
    variants=dict(quick=[("memtrace", 1)], thorough=[("memtrace", 1)]),
    must_build=["memtrace"],
    runs=dict(quick=4000, thorough=120000), secs=dict(quick=50, thorough=600),
    det_pairs=dict(quick=64, thorough=256),
    rule="one evaluation = one threadsim run in a child forked from a process that never entered libopus: 2-6 tasks (real pthreads, one baton) each creating, configuring, using and destroying its own "
         "encoder / decoders (normal decode, concealment and FEC calls, resets) / repacketizer (kinds and configurations mixed, at least two tasks of the same kind, often identical), interleaved by a seeded scheduler that preempts at traced memory accesses of "
         "library code (clang -fsanitize=thread instrumentation, own runtime) after seeded access counts or at a task's n-th first entry into a library function; oracle (i) ownership / vector-clock detector: "
         "no access to another task's heap or stack, no unordered conflicting pair on any other writable location; oracle (ii) every task's results equal those of the same task run alone afterwards; "
         "non-trivial = at least one seeded preemption fired and >=5 encode/decode calls succeeded; distinct = 64-bit signature over (preemption list, switches, per-task access counts)",
    fault_keys=["preemptions_fired", "switches"],
    probes_required=["traced_accesses", "rodata_reads", "first_function_entries", "tasks_2", "tasks_3", "mode_silk", "mode_hybrid", "mode_celt", "rp_ops", "plc_ops", "fec_ops"],
    real=REAL_CODEC + ["real pthreads (one per task), real libopus code instrumented by the compiler's TSan pass"],
    simulated=["thread scheduler (baton; seeded preemption at memory-access granularity)", "TSan runtime replaced by the simulator's ownership / happens-before detector",
               "per-task heap arenas and stacks (simulator-owned, never reused across tasks)", "signal sources, control plane (seeded)", "CPU level behind --wrap=opus_select_arch"],
    assumptions=["seeded sampling of schedules, not exhaustive", "races inside libc / libm are not observed (not instrumented)", "builds with NONTHREADSAFE_PSEUDOSTACK are outside the claim",
                 "happens-before edges are honoured for pthread_mutex, pthread_once and atomics used by library code (treated as acquire+release)"],
)

PROPS["C20"] = dict(
    level="exploration",
    variants=dict(quick=[("asan", 1)], thorough=[("asan", 3), ("fixed-asan", 1)]),
    must_build=["asan"],
    runs=dict(quick=5000, thorough=120000), secs=dict(quick=50, thorough=600),
    rule="one evaluation = one simulated call: an activity schedule on the sample clock (bursts of tones / voiced / music / noise / square / sweep and gaps of digital silence, low-level noise, dither or denormals, "
         "each 0-5 s and biased to the 200/400/600 ms timer constants) encoded at a seeded rate / channels / application / complexity / bitrate / VBR-CBR / frame duration with DTX on or off and control changes "
         "(DTX toggles, complexity, bitrate, mode) mid-stream; receivers G (DTX packets as given) and P (DTX packets as losses) plus a DTX-off reference chain; faults = loss of the first packet after a gap or of a packet inside it; "
         "oracles on the sample clock: DTX onset within one frame of the 200 ms mark (and not before it) for digital silence when the analysis runs, every run of tiny packets < 400 ms + one frame, IN_DTX on every DTX packet, "
         "first active frame coded normally, no tiny packet with DTX off, exact receiver durations, calibrated near-silence in the gap and level after resumption; "
         "non-trivial = a DTX toggle or receiver loss fired or a DTX run occurred, and >=5 calls succeeded; distinct = signature over the per-frame (tiny, silent, duration, configuration class) sequence",
    fault_keys=["rx_lost", "dtx_enabled", "dtx_disabled", "ctl_applied"],
    probes_required=["dtx_packets", "dtx_runs", "dtx_refresh", "onset_checked", "resume_checked", "subframe_resume_checked", "nodtx_checked", "gap_silence_checked", "resume_level_checked"],
    real=REAL_CODEC, simulated=SIM_COMMON + ["activity schedule on the sample clock", "receivers G / P / reference chain"],
    assumptions=ASSUME_COMMON + ["the onset clause is checked for exact digital silence with no control change since activity stopped", "near-silence and resumption-level bounds are calibrated (calib/thresholds.json C20.*)",
                                 "'bitrate and buffer allow at least three bytes' is read conservatively as bitrate*duration/8 >= 8 bytes and max_data_bytes >= 100"],
)

PROPS["C11"] = dict(
    level="exploration",
    variants=dict(quick=[("asan", 1)], thorough=[("asan", 3), ("fixed-asan", 1)]),
    must_build=["asan"],
    runs=dict(quick=8000, thorough=200000), secs=dict(quick=45, thorough=600),
    rule="one evaluation = one control-plane session: 0-3 creator calls with supported and unsupported (Fs, channels, application, family, streams, coupled, mapping) arguments, each followed by an enumeration of "
         "allocation failures (fail the k-th opus_alloc for every k the fault-free creation performs; live-block accounting), then an object of seeded kind (encoder, multistream / surround encoder, projection encoder, decoder, "
         "multistream decoder, projection decoder) driven by every documented request with a value grid {lo-1, lo, lo+1, mid, hi-1, hi, hi+1, AUTO, BITRATE_MAX, INT_MIN, INT_MAX, 0, far below, far above, random}, "
         "NULL out-pointers, unknown request numbers, requests of the other object family, stream-state accessors and resets, interleaved with encode / decode calls on seeded signals; "
         "oracle: legal => OPUS_OK + read-back (+ no other getter moves), illegal / NULL / unknown => documented error + every getter unchanged, creation errors and no leak, and on every packet with payload the duration, "
         "forced channel count (at once when set before the first frame, within three packets when changed mid-stream), bandwidth cap (forced, maximum, Nyquist; MDCT medium-band exception) and MDCT-only rules; "
         "non-trivial = a rejected request / failed allocation / rejected creation fired or a legal change took effect mid-stream, and >=5 encode/decode calls succeeded; distinct = signature over (request, outcome, TOC, duration) sequence",
    fault_keys=["ctl_illegal", "ctl_null", "ctl_unknown", "ctl_foreign", "ctl_unsupported", "alloc_fail_injected", "create_rejected"],
    probes_required=["ctl_legal", "readback_checked", "honour_checked", "honour_checked_ms", "forced_channels_checked", "forced_channels_midstream_checked", "bandwidth_checked", "mdct_only_checked", "create_ok", "resets", "ctl_state_accessor"],
    real=REAL_CODEC, simulated=SIM_COMMON + ["control plane with value grid", "allocator with k-th allocation failure (CUSTOM_SUPPORT seam)"],
    assumptions=ASSUME_COMMON + ["encoder OPUS_GET_BANDWIDTH reports the bandwidth in use and multistream OPUS_GET_BITRATE the sum of the per-stream rates in effect: neither is asserted to read back (documented / long-standing API behaviour)",
                                 "requests whose effect is not visible in the packet header (complexity, signal, LSB depth, prediction, FEC, loss %) are checked for validation and read-back only",
                                 "argument validity of multistream layouts beyond (Fs, application, channel range) is judged by the library; the check demands consistency (object <=> OPUS_OK, documented error otherwise, no leak)"],
)

PROPS["C15"] = dict(
    level="exploration",
    variants=dict(quick=[("fixed-asan", 2), ("asan", 1), ("checkasm", 1)], thorough=[("fixed-asan", 2), ("asan", 1), ("checkasm", 1)]),
    must_build=["fixed-asan", "asan"],
    runs=dict(quick=2500, thorough=60000), secs=dict(quick=50, thorough=600),
    rule="one evaluation = one simulated session in which every object exists once per CPU level the host offers (0 = portable C .. 4 = AVX2, chosen per object through --wrap=opus_select_arch): "
         "encoder replicas fed identical PCM and identical control changes, decoder replicas fed identical packets including lost ones (PLC) and FEC calls; fixed-point variant: packets byte-identical across encoder levels and PCM "
         "bit-identical across decoder levels; float variant: every (encoder level, decoder level) pair agrees on the final range and sample count, the spread of normally decoded float PCM across levels is recorded as a probe only; "
         "checkasm variant: upstream in-kernel asm-vs-C self-checks armed as assertions under the same load; non-trivial = more than one level available and >=5 calls succeeded; "
         "distinct = signature over the (TOC, duration, loss / FEC shape) sequence",
    fault_keys=["plc_steps", "fec_steps", "ctl_applied"],
    probes_required=["levels", "mode_silk", "mode_hybrid", "mode_celt", "range_checked"],
    real=REAL_CODEC + ["every x86 kernel the run-time dispatch selects at the simulated level (SSE, SSE2, SSE4.1, AVX2)"],
    simulated=SIM_COMMON,
    assumptions=ASSUME_COMMON + ["only the whole-codec clause is decided: kernels and argument shapes that the codec workload reaches; the per-kernel clause (every kernel on all argument shapes and arbitrary data) is a pure-function comparison outside this technique",
                                 "levels above what the host CPU supports cannot be simulated"],
)

PROPS["C09"] = dict(
    level="exploration",
    variants=dict(quick=[("asan", 1)], thorough=[("asan", 3), ("fixed-asan", 1)]),
    must_build=["asan"],
    runs=dict(quick=4000, thorough=100000), secs=dict(quick=55, thorough=700),
    rule="one evaluation = one simulated call over a lossy link: a live encoder (FEC-capable SILK / hybrid settings over-represented, all modes present, DTX off) whose packets each carry a link fault decision "
         "(iid, Gilbert-Elliott bursts, periodic, 12-bit sliding-window patterns sampled, window-enumeration sessions in which all 2^k patterns (k <= 6 quick, <= 9 thorough) over a seeded window - also across mode / rate / duration transitions - are played out through fresh receivers, long bursts up to 10 s, loss right after a mode / configuration transition; late and duplicate packets are discarded by the jitter buffer), "
         "played out through three real decoders: L (faulty link, seeded play-out policy: FEC from the next packet when it has arrived - also with a frame_size larger than the packet's - else PLC in one call or in 2.5-20 ms pieces), "
         "P (same link, concealment only) and R (loss-free twin); exact oracles: requested counts, finite output, BAD_ARG for non-2.5 ms sizes, every received packet ends with the encoder's final range on L and P, an FEC request that cannot use a redundant copy (MDCT-only packet or history, frame_size below the packet's) is bit-identical to a concealment request on a byte copy of the receiver; "
         "calibrated oracles with stated preconditions: concealed peak bounded by the recent level, decay after >= 1 s of loss (decay-probe sessions), FEC error well below PLC error on isolated losses with LBRR (FEC-probe sessions), "
         "reconvergence to R within 250 ms after faults stop for CELT-only streams (SILK / hybrid reconvergence is recorded as a probe only); non-trivial = at least one loss fired and >=5 calls succeeded; distinct = signature over the (TOC config, FEC / PLC, next-arrived) sequence of the lost packets",
    fault_keys=["f_drop", "f_burst", "f_late", "f_dup_discarded", "f_after_transition"],
    probes_required=["rx_lost", "rx_received", "plc_calls", "plc_in_pieces", "fec_with_lbrr", "fec_without_lbrr", "fec_larger_frame_size", "bounded_checked", "decay_checked", "fec_gain_checked", "fec_frame_level_checked", "fec_frame_level_checked_first_lbrr_frame_not_first", "recovery_checked_celt", "recovery_checked_flushed", "odd_frame_size_checked", "mode_silk", "mode_hybrid", "mode_celt", "window_patterns_played", "fec_vs_plc_exact_checked", "plc_in_pieces_of_7_5_12_5_15_17_5_ms", "fec_larger_frame_size_not_multiple_of_10ms"],
    real=REAL_CODEC, simulated=SIM_COMMON + ["lossy link (loss patterns attached per packet)", "jitter buffer / play-out policy", "three receiver replicas (faulty, concealment-only, loss-free twin)"],
    assumptions=ASSUME_COMMON + ["the numeric clauses (bounded, decay, FEC gain, recovery) are calibrated with preconditions (calib/thresholds.json C09.*): unconditioned they are not true of a healthy IIR decoder",
                                 "perceptual quality of concealment is not judged"],
)

# ---- MANIFEST texts (bin/mkmanifest)
_TECH = "deterministic simulation with fault injection: "
_NOTE = "seeded sampling, not proof; trusted: the simulator's oracles and models, the compilers/sanitizers; DRED/OSCE/custom modes not built. "
PROPS["C01"].update(
    level_text="seeded search over simulated receiving sessions: real decoders (single, multistream, projection) fed live-encoder packets through a simulated hostile link (drop, dup, reorder, truncate, bit flips, splice, TOC swap, cross-session, structured garbage) with hostile call shapes and decoder ctl churn, under ASan + bounds + internal assertions, exact-size buffers, finite-output and return-code oracles, and an independent framing model deciding when decode must succeed",
    level_note=_NOTE + "frame_size above one second is outside the claim",
    technique=_TECH + "hostile-link receiver sessions under sanitizers, return-code / canary / framing-model oracles")
PROPS["C02"].update(
    level_text="seeded search over simulated encoder/decoder sessions (control-plane churn, MTU churn, FUZZING buggify decisions, replicas at other rates/channels/CPU levels); every packet checked for validity against the library parser and an independent framing model and for lock-step sample counts and final range on every replica",
    level_note=_NOTE + "the reference-decoder clause is not covered (no RFC 6716 reference decoder offline)",
    technique=_TECH + "seeded plans, lock-step replica oracle")
PROPS["C05"].update(
    level_text="seeded search over rate-control sessions: MTU collapses and recoveries, bitrate/VBR/CVBR/CBR churn between frames of all durations; exact-size output block, exact CBR size formula, BITRATE_MAX fill, exact multistream CBR size and constancy, constrained-VBR long-term mean calibrated per (mode family, rate, material) cell, plus the full C02 validity/lock-step oracle on every packet produced under a capacity fault",
    level_note=_NOTE + "CVBR long-term bound is calibrated (calib/thresholds.json) with a stated precondition",
    technique=_TECH + "capacity faults on the encoder output path, exact size oracle + calibrated long-term rate oracle")
PROPS["C07"].update(
    level_text="seeded search over middlebox sessions: repacketizer cat/out/out_range, pad/unpad and multistream pad/unpad driven over a pool of live-encoder and synthetic packets with invalid offers, incompatible TOCs, >120 ms, bad ranges and too-small buffers; frame-list model, independent framing model and twin decoders as oracle",
    level_note=_NOTE + "lifetime misuse of packet memory referenced by the repacketizer is outside the claim",
    technique=_TECH + "middlebox sessions with rejected-operation atomicity, frame-list reference model")
PROPS["C12"].update(
    level_text="seeded search over object histories executed twice under different simulated process environments (heap fill, addresses, stack residue, bystanders) with state faults at arbitrary points (memcpy snapshot, migrate + scribble original, reset vs fresh); every twin must stay bit-identical at every later step",
    level_note=_NOTE + "uninitialised reads that never influence an output are not detected",
    technique=_TECH + "crash/restart-style state faults (snapshot, migrate, reset) with twin-equality oracle across two environments")
PROPS["C16"].update(
    level_text="seeded search over extension-carrying middlebox sessions: generate/parse/count/iterate/frame-limited-iterate/find round trips with capacity faults and corrupted padding, and carriage of extensions through repacketizer merges and splits against an extension-list model",
    level_note=_NOTE + "the list<->bytes bijection itself is exercised at exploration strength only",
    technique=_TECH + "capacity/corruption faults on the extension area and repacketizer carriage, extension-list reference model")
PROPS["C14"].update(
    level_text="seeded search over thread interleavings: independent codec instances run as real threads under a baton scheduler that preempts at instrumented memory accesses inside libopus; a simulator-owned ownership / happens-before detector flags any cross-task conflicting access, and every task must match its own serial execution bit for bit; each run starts from a pristine process image so lazy initialisation happens inside the run",
    level_note=_NOTE + "libc/libm internals are not instrumented; schedules are sampled, not enumerated",
    technique=_TECH + "seeded baton scheduler over real threads with preemption at compiler-instrumented memory accesses, ownership/vector-clock race oracle + serial-equivalence oracle")
PROPS["C20"].update(
    level_text="seeded search over activity/inactivity schedules on the simulated sample clock with DTX toggles, configuration churn and receiver-side loss of refresh / first-after-gap packets; exact timer oracles (200 ms hang-over, 400 ms refresh bound, IN_DTX, resume, no tiny packets with DTX off) plus calibrated receiver-level oracles",
    level_note=_NOTE + "receiver level bounds are calibrated; onset clause only for exact digital silence without intervening control changes",
    technique=_TECH + "sample-clock timers driven by seeded activity schedules, structural-timing oracles, loss faults on DTX/refresh packets")
PROPS["C11"].update(
    level_text="seeded search over control-plane sessions with rejected requests as the injected fault (must be atomic: every getter unchanged), plus enumeration of failing allocations for every creator; exact oracles from the request documentation (validation, read-back, no side effects, creation errors, no leak) and TOC-level honouring of the settings in force (duration, forced channels incl. the three-packet bound, bandwidth caps, MDCT-only rules)",
    level_note=_NOTE + "allocation-failure part enumerates every allocation index of every creator (fault_enumeration); the rest is sampling",
    technique=_TECH + "rejected-request and failed-allocation faults between frames, documentation-derived settings model, TOC honouring oracle")
PROPS["C15"].update(
    level_text="seeded search over sessions replicated at every simulated CPU feature level: the level each object sees at init is owned by the simulator; fixed-point replicas must agree bit for bit (packets and PCM, including concealment), float replicas on final ranges and counts; upstream asm self-checks armed in the thorough tier",
    level_note=_NOTE + "whole-codec clause only; the per-kernel clause over all argument shapes is not decided by this technique (pure-function comparison)",
    technique=_TECH + "CPU feature level as simulator-owned environment nondeterminism (link-time seam), replica-equality oracle across levels, loss faults for the concealment kernels")
PROPS["C09"].update(
    level_text="seeded search over loss patterns and play-out policies on a simulated lossy link between a live encoder and three decoder replicas (faulty link with FEC/PLC policy, concealment-only, loss-free twin); exact oracles on counts, finiteness, final ranges and argument validation; calibrated, pre-conditioned oracles for boundedness, decay, FEC gain and bounded-liveness reconvergence after faults stop",
    level_note=_NOTE + "numeric clauses are calibrated against the unchanged tree with explicit preconditions; loss patterns are sampled, the 2^12 window space is not enumerated",
    technique=_TECH + "loss / burst / late-arrival faults on a simulated link, loss-free twin replica as reference, bounded-liveness recovery oracle")
