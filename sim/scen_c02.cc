// C02 — every encoded packet is valid and decodes in lock-step with the encoder (netsim `lockstep`).
// Also hosts the shared generator/executor pieces that C05 reuses (see scen_c05.cc).
#include "session.h"
#include "lockstep.h"

Plan gen_lockstep(uint64_t seed, int tier, int flavour) {
  Rng r(seed);
  Plan p;
  // ---- swarm configuration
  int kind = (int[]){K_SINGLE, K_SINGLE, K_SINGLE, K_SINGLE, K_SINGLE, K_SINGLE, K_SURROUND, K_SURROUND, K_MS, K_PROJ}[r.range(0, 9)];
  int maxch = tier ? 11 : 6;
  // tight multistream sessions: many streams, buffers in the few bytes right above the smallest packet the streams can form, long
  // frames over-represented (the per-stream byte reservations of the multistream encoder are exercised nowhere else)
  bool tight_ms = kind != K_SINGLE && r.chance(0.4);
  if (tight_ms) maxch = tier ? 16 : 12;
  Layout l; gen_layout(r, l, kind, maxch);
  int host = host_arch();
  p.ops.push_back(mkop("ENCNEW", {kind, r.range(0, 4), l.ch, r.range(0, 2), l.family, (int64_t)r.range(0, 1 << 20), r.chance(0.5) ? -1 : r.range(0, host), (int64_t)r.range(1, 1 << 30)}));
  int ndec = (int)r.range(1, kind == K_SINGLE ? 3 : 2);
  for (int i = 0; i < ndec; i++) p.ops.push_back(mkop("DECNEW", {r.range(0, 4), r.range(0, 1), r.chance(0.5) ? -1 : r.range(0, host), r.range(0, 2)}));
  auto &doms = enc_ctl_domains();
  int minfi = 0;   // generator's view of the expert frame duration (frames shorter than it are refused)
  auto push_ctl = [&]() {
    const CtlDom &d = doms[r.range(0, (int64_t)doms.size() - 1)];
    int v = d.legal[r.range(0, (int64_t)d.legal.size() - 1)];
    if (d.req == OPUS_SET_BITRATE_REQUEST && r.chance(0.5)) v = r.chance(0.6) ? (int)r.range(500, 40000) : (int)r.range(500, 512000);
    if (d.req == OPUS_SET_EXPERT_FRAME_DURATION_REQUEST) minfi = v == 5000 ? 0 : v - 5001;
    p.ops.push_back(mkop("CTL", {d.req, v}));
  };
  auto push_src = [&]() {
    int fam = r.weighted({2, 1, 4, 2, 5, 3, 1, 2, 2, flavour == 0 ? 2 : 0, 1, 1, 4, 1, 1, 2});
    int amp = r.pick({1, 10, 100, 300, 300, 500, 900, 1000, 1000, 2000});
    p.ops.push_back(mkop("SRC", {fam, r.pick({60, 110, 220, 440, 1000, 3000, 7000, 15000}), amp, r.range(1, 1000), r.range(0, 1000)}));
  };
  int nctl0 = (int)r.range(0, 5);
  for (int i = 0; i < nctl0; i++) push_ctl();
  if (r.chance(0.5)) p.ops.push_back(mkop("CTL", {11002, r.pick({1000, 1000, 1001, 1001, 1002, -1000})}));
  push_src();
  int nfr = (int)(tier ? r.range(30, 200) : r.range(8, 50));
  // frame index distribution: runs of one duration (mode history needs >=10 ms runs)
  int fidx = r.weighted({2, 2, 4, 8, 3, 3, 1, 1, 1});
  int ns = kind == K_SINGLE ? 1 : std::max(1, l.ch / 2);
  int mtu = kind == K_SINGLE ? r.pick({1500, 1500, 1500, 1276, 1275, 400, 100, 50, 20, 8, 4, 3, 2, 1})
                             : r.pick({4000, 1500, 1500, 1000, 400, 100 * ns, 20 * ns, 4 * ns, 3 * ns, 2 * ns, 2 * ns - 1, 1});
  double pctl = r.pick({0.0, 0.1, 0.3, 0.6}), pmtu = r.pick({0.0, 0.05, 0.3});
  if (flavour == 1) { pmtu = r.pick({0.1, 0.3, 0.6}); }
  if (tight_ms) { mtu = -1000 - (int)r.range(0, 8 * l.ch); fidx = r.weighted({1, 1, 1, 2, 1, 1, 1, 8, 1}); nfr = std::min(nfr, tier ? 40 : 12); }
  for (int i = 0; i < nfr; i++) {
    if (r.chance(pctl)) push_ctl();
    if (r.chance(0.06)) push_src();
    if (r.chance(0.12)) fidx = r.weighted({2, 2, 4, 8, 3, 3, 1, 1, 1});
    if (tight_ms && r.chance(0.5)) mtu = -1000 - (int)(r.chance(0.3) ? r.range(0, 6) : r.range(0, 8 * l.ch));
    else if (r.chance(pmtu)) mtu = flavour == 1 ? (r.chance(0.4) ? (int)r.range(1, 10) : (int)r.range(1, 4000))
                                           : r.pick({1, 2, 3, 4, 8, 20, 50, 100, 1275, 1276, 1500, (int)r.range(1, 1500)});
    int fi = fidx;
    if (fi < minfi && r.chance(0.9)) fi = minfi;
    if (r.chance(0.02)) fi = (int)r.range(9, 12);  // illegal frame size shapes
    p.ops.push_back(mkop("ENC", {fi, mtu, r.range(0, 2)}));
  }
  p.hdr["scenario"] = flavour == 0 ? "lockstep" : "ratectl";
  return p;
}

static Plan gen(uint64_t seed, int tier) { return gen_lockstep(seed, tier, 0); }

static void exec(const Plan &p, Run &run) {
  LockstepExec x(run, "C02");
  x.check_rate = false;
  x.run_plan(p);
}

REGISTER_SCENARIO(C02, "lockstep", gen, exec);
