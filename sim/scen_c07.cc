// C07 — repacketizer, pad and unpad preserve frames and always emit valid packets (boxsim).
#include "boxsim.h"

namespace {

struct C07 : Box {
  explicit C07(Run &r) : Box(r, "C07") {}

  bool range_has_nonext_padding(int r, int b, int e) {
    for (int i = b; i < e && i < (int)rm[r].src.size(); i++) { const PoolPkt &p = pool_at(rm[r].src[i]); if (p.pad_syntax == 2 && rm[r].src_first[i] == i) return true; }
    return false;
  }
  // pool entries referenced by a repacketizer are kept in 'held' so indices stay meaningful
  std::vector<PoolPkt> held;
  const PoolPkt &pool_at(int h) { return held[(size_t)h]; }

  void op_init(const Op &op) { int r = (int)(((op.arg(0) % NRP) + NRP) % NRP); opus_repacketizer_init(rp[r]); rm[r].clear(); run.count("rp_init"); }

  void op_cat(const Op &op) {
    int r = (int)(((op.arg(0) % NRP) + NRP) % NRP);
    const PoolPkt *pp = pick(op.arg(1)); if (!pp) return;
    PoolPkt p = *pp;
    RpModel &m = rm[r];
    int before = opus_repacketizer_get_nb_frames(rp[r]);
    if (before != (int)m.frames.size()) REPORT(run, prop, "rp_nb_frames_mismatch", "lib %d model %zu", before, m.frames.size());
    bool expect_ok = p.valid;
    if (expect_ok && !m.frames.empty() && ((m.toc & 0xFC) != (p.f.toc & 0xFC))) { expect_ok = false; run.count("cat_toc_incompatible"); }
    if (expect_ok && (long)(m.frames.size() + p.frames.size()) * toc_frame48(p.f.toc) > 5760) { expect_ok = false; run.count("cat_over_120ms"); }
    if (!p.valid) run.count("cat_invalid_offered");
    int ret = opus_repacketizer_cat(rp[r], p.data(), p.len);
    run.ev((uint64_t)ret);
    if (ret == OPUS_INTERNAL_ERROR) REPORT(run, prop, "rp_cat_internal_error", "len=%d", p.len);
    if (expect_ok && ret != OPUS_OK) REPORT(run, prop, "rp_cat_rejected_valid", "ret=%d len=%d toc=%02x nframes=%d have=%zu", ret, p.len, p.f.toc, p.f.nframes, m.frames.size());
    if (!expect_ok && ret == OPUS_OK) REPORT(run, prop, p.valid ? "rp_cat_accepted_incompatible" : "rp_cat_accepted_invalid", "len=%d toc=%02x have=%zu", p.len, p.len ? p.data()[0] : 0, m.frames.size());
    if (ret != OPUS_OK) {
      // rejection must be atomic
      int after = opus_repacketizer_get_nb_frames(rp[r]);
      if (after != before) REPORT(run, prop, "rp_cat_rejection_changed_state", "nb_frames %d -> %d", before, after);
      run.fired = true; run.sgs("catrej");
      if (before > 0) check_out(r, 0, before, 0, 0, true);
      return;
    }
    if (m.frames.empty()) m.toc = p.f.toc;
    int first = (int)m.frames.size(); int h = (int)held.size(); held.push_back(p);
    for (auto &f : p.frames) { m.frames.push_back(f); m.src.push_back(h); m.src_first.push_back(first); }
    m.hold.push_back(p.mem);
    run.count("cat_ok"); run.api_ok++; run.sg(mix64(p.f.toc, p.f.nframes));
  }

  // generous / exact / too-small maxlen protocol around out_range; quiet=true: only the content oracle (after a rejected cat)
  void check_out(int r, int b, int e, int mode, int64_t a, bool quiet) {
    RpModel &m = rm[r];
    int nb = (int)m.frames.size();
    bool bad_range = b < 0 || b >= e || e > nb;
    int count = bad_range ? 0 : e - b;
    long padtot = 0; bool any_ext = false;
    // every source packet overlapping the range contributes its extensions (attached to its first frame)
    if (!bad_range) for (int i = 0; i < e; i++) if (m.src_first[i] == i) { const PoolPkt &p = pool_at(m.src[i]); if (i + p.f.nframes <= b) continue; padtot += p.f.pad_len; if (p.pad_syntax != 0) any_ext = true; }
    long generous = bad_range ? 100 : 1277L * count + (any_ext ? padtot + padtot / 200 + 64 : 0);
    ExactBuf ob((size_t)generous, 0xEE);
    int ret = (b == 0 && e == nb && (a & 1)) ? opus_repacketizer_out(rp[r], ob.p, (opus_int32)generous) : opus_repacketizer_out_range(rp[r], b, e, ob.p, (opus_int32)generous);
    run.ev((uint64_t)ret);
    if (bad_range) {
      if (ret != OPUS_BAD_ARG) REPORT(run, prop, "rp_out_bad_range_not_rejected", "b=%d e=%d nb=%d ret=%d", b, e, nb, ret);
      run.count("out_bad_range"); run.fired = true; return;
    }
    if (ret == OPUS_INTERNAL_ERROR) {
      if (range_has_nonext_padding(r, b, e)) REPORT(run, prop, "rp_out_internal_error_nonext_padding", "b=%d e=%d", b, e);
      else REPORT(run, prop, "rp_out_internal_error", "b=%d e=%d", b, e);
      return;
    }
    if (ret <= 0) {
      // a split inside a packet that carries extensions is C16's subject (finding there); C07 only demands frames
      REPORT(run, prop, any_ext ? strf("rp_out_failed_with_extensions_%d", ret) : strf("rp_out_failed_generous_%d", ret), "b=%d e=%d nb=%d maxlen=%ld", b, e, nb, generous);
      return;
    }
    if (ret > generous) REPORT(run, prop, "rp_out_exceeds_maxlen", "ret=%d maxlen=%ld", ret, generous);
    if (!ob.tail_ok()) REPORT(run, prop, "rp_out_wrote_past_maxlen", "ret=%d", ret);
    // content: parses (library + model) to exactly the selected frames, original configuration bits
    Framed f = model_parse(ob.p, ret, false);
    if (!f.ok) REPORT(run, prop, "rp_out_invalid_packet_model", "ret=%d b=%d e=%d", ret, b, e);
    unsigned char toc; const unsigned char *fr[48]; opus_int16 sz[48];
    int n = opus_packet_parse(ob.p, ret, &toc, fr, sz, NULL);
    if (n != count || f.nframes != count) REPORT(run, prop, "rp_out_frame_count_wrong", "lib %d model %d want %d", n, f.nframes, count);
    if ((toc & 0xFC) != (m.toc & 0xFC)) REPORT(run, prop, "rp_out_toc_config_changed", "%02x vs %02x", toc, m.toc);
    for (int i = 0; i < count; i++) {
      const Bytes &w = m.frames[(size_t)(b + i)];
      if (sz[i] != (int)w.size() || f.len[i] != (int)w.size() || (w.size() && memcmp(fr[i], w.data(), w.size())) || (w.size() && memcmp(ob.p + f.off[i], w.data(), w.size())))
        REPORT(run, prop, "rp_out_frame_bytes_differ", "frame %d (of %d): size lib %d model %d want %zu", i, count, sz[i], f.len[i], w.size());
    }
    run.count("out_ok"); run.api_ok++;
    run.sg(mix64(mix64(count, f.code()), (uint64_t)any_ext));
    if (count >= 3) run.count("out_code3_multi");
    for (int i = 0; i < count; i++) if (m.frames[(size_t)(b + i)].size() >= 252) { run.count("out_len_ge252"); break; }
    if (quiet) return;
    // exact-size and too-small maxlen
    {
      ExactBuf eb((size_t)ret, 0xEE);
      int r2 = opus_repacketizer_out_range(rp[r], b, e, eb.p, ret);
      run.ev((uint64_t)r2);
      if (r2 != ret || memcmp(eb.p, ob.p, (size_t)ret)) REPORT(run, prop, "rp_out_exact_maxlen_differs", "generous %d exact %d", ret, r2);
    }
    int cut = mode == 0 ? 1 : (int)(1 + a % ret);
    if (cut > ret) cut = ret;
    {
      int ml = ret - cut;
      ExactBuf sb((size_t)ml, 0xEE);
      int r3 = opus_repacketizer_out_range(rp[r], b, e, sb.p, ml);
      run.ev((uint64_t)r3); run.fired = true; run.count("out_too_small");
      if (r3 != OPUS_BUFFER_TOO_SMALL) REPORT(run, prop, "rp_out_too_small_not_refused", "maxlen %d (need %d) ret %d", ml, ret, r3);
      if (!sb.tail_ok()) REPORT(run, prop, "rp_out_wrote_past_maxlen", "maxlen %d", ml);
    }
    // decoded audio of the merged packet == decoded audio of its frames delivered one by one
    if (!any_ext || true) decode_compare_frames(Bytes(ob.p, ob.p + ret), b, e, r);
  }

  void decode_compare_frames(const Bytes &merged, int b, int e, int r) {
    RpModel &m = rm[r];
    DecNode A, B; int fs = 48000, ch = 2;
    if (A.create_single(fs, ch, -1) != OPUS_OK || B.create_single(fs, ch, -1) != OPUS_OK) return;
    int per = toc_frame48(m.toc), count = e - b;
    std::vector<float> pa, pb, all; uint64_t h; bool c1, f1;
    int ra = A.decode(merged.data(), (int)merged.size(), per * count, 0, FMT_F32, &pa, &h, &c1, &f1);
    if (ra != per * count) REPORT(run, prop, "rp_out_decode_count", "ret %d want %d", ra, per * count);
    for (int i = b; i < e; i++) {
      Bytes one; one.push_back((unsigned char)(m.toc & 0xFC)); one.insert(one.end(), m.frames[(size_t)i].begin(), m.frames[(size_t)i].end());
      int rb = B.decode(one.data(), (int)one.size(), per, 0, FMT_F32, &pb, &h, &c1, &f1);
      if (rb != per) REPORT(run, prop, "rp_single_decode_count", "ret %d want %d", rb, per);
      all.insert(all.end(), pb.begin(), pb.end());
    }
    if (pa.size() != all.size() || memcmp(pa.data(), all.data(), pa.size() * sizeof(float))) REPORT(run, prop, "rp_out_decoded_audio_differs", "count=%d toc=%02x", count, m.toc);
    if (A.final_range() != B.final_range()) REPORT(run, prop, "rp_out_final_range_differs", "%08x vs %08x", A.final_range(), B.final_range());
    run.count("decode_compared");
  }

  void op_out(const Op &op, bool range) {
    int r = (int)(((op.arg(0) % NRP) + NRP) % NRP);
    int nb = (int)rm[r].frames.size();
    int b = 0, e = nb;
    if (range) {
      int how = (int)(((op.arg(1) % 8) + 8) % 8);
      if (nb == 0) { b = (int)(op.arg(2) % 3) - 1; e = (int)(op.arg(3) % 3); }
      else if (how == 0) { b = -1; e = (int)(op.arg(3) % (nb + 1)); }
      else if (how == 1) { b = (int)(op.arg(2) % (nb + 1)); e = b; }
      else if (how == 2) { b = 0; e = nb + 1; }
      else { b = (int)(op.arg(2) % nb); e = b + 1 + (int)(op.arg(3) % (nb - b)); }
    }
    check_out(r, b, e, (int)(op.arg(4) & 1), op.arg(5), false);
  }

  bool same_frames(const unsigned char *d, int len, const PoolPkt &p, const char *what) {
    Framed f = model_parse(d, len, false);
    if (!f.ok) { REPORT(run, prop, strf("%s_invalid_packet", what), "len=%d", len); return false; }
    if (f.nframes != p.f.nframes) { REPORT(run, prop, strf("%s_frame_count_changed", what), "%d -> %d", p.f.nframes, f.nframes); return false; }
    if ((f.toc & 0xFC) != (p.f.toc & 0xFC)) REPORT(run, prop, strf("%s_toc_config_changed", what), "%02x -> %02x", p.f.toc, f.toc);
    for (int i = 0; i < f.nframes; i++)
      if (f.len[i] != (int)p.frames[(size_t)i].size() || (f.len[i] && memcmp(d + f.off[i], p.frames[(size_t)i].data(), (size_t)f.len[i])))
        { REPORT(run, prop, strf("%s_frame_bytes_differ", what), "frame %d", i); return false; }
    return true;
  }

  void twin_decode_equal(const Bytes &a, const Bytes &b, const char *what) {
    DecNode A, B; if (A.create_single(48000, 2, -1) != OPUS_OK || B.create_single(48000, 2, -1) != OPUS_OK) return;
    std::vector<float> pa, pb; uint64_t h; bool c, f;
    int n = opus_packet_get_nb_samples(a.data(), (int)a.size(), 48000);
    if (n <= 0) return;
    int ra = A.decode(a.data(), (int)a.size(), n, 0, FMT_F32, &pa, &h, &c, &f);
    int rb = B.decode(b.data(), (int)b.size(), n, 0, FMT_F32, &pb, &h, &c, &f);
    if (ra != rb || pa.size() != pb.size() || (pa.size() && memcmp(pa.data(), pb.data(), pa.size() * 4))) REPORT(run, prop, strf("%s_decoded_audio_differs", what), "ra=%d rb=%d", ra, rb);
    if (A.final_range() != B.final_range()) REPORT(run, prop, strf("%s_final_range_differs", what), "%08x vs %08x", A.final_range(), B.final_range());
    run.count("decode_compared");
  }

  // PAD j extra how
  void op_pad(const Op &op) {
    const PoolPkt *pp = pick(op.arg(0)); if (!pp) return; PoolPkt p = *pp;
    int how = (int)(((op.arg(2) % 8) + 8) % 8);
    int64_t extra = op.arg(1);
    int new_len = how == 0 ? p.len - 1 - (int)(extra % 3) : how == 1 ? p.len : p.len + (int)(how == 2 ? 1 + extra % 3 : how == 3 ? 253 + extra % 6 : extra % 3000);
    if (new_len < 0) new_len = 0;
    ExactBuf buf((size_t)std::max(new_len, p.len), 0xEE);
    if (p.len) memcpy(buf.p, p.data(), (size_t)p.len);
    int ret = opus_packet_pad(buf.p, p.len, new_len);
    run.ev((uint64_t)ret); run.count("pad_calls");
    if (ret == OPUS_INTERNAL_ERROR) { REPORT(run, prop, p.pad_syntax == 2 ? "pad_internal_error_nonext_padding" : "pad_internal_error", "len=%d new=%d", p.len, new_len); return; }
    if (p.len < 1 || new_len < p.len) { if (ret != OPUS_BAD_ARG) REPORT(run, prop, "pad_bad_args_not_rejected", "len=%d new=%d ret=%d", p.len, new_len, ret); run.fired = true; return; }
    if (new_len == p.len) { if (ret != OPUS_OK || memcmp(buf.p, p.data(), (size_t)p.len)) REPORT(run, prop, "pad_same_len_changed", "ret=%d", ret); return; }
    if (!p.valid) { if (ret >= 0) REPORT(run, prop, "pad_accepted_invalid", "len=%d", p.len); run.fired = true; return; }
    if (ret != OPUS_OK) { REPORT(run, prop, strf("pad_failed_%d", ret), "len=%d new=%d code=%d nframes=%d padsyn=%d", p.len, new_len, p.f.code(), p.f.nframes, p.pad_syntax); return; }
    // exactly new_len bytes, same frames, same audio
    Framed f = model_parse(buf.p, new_len, false);
    if (!f.ok || f.consumed != new_len) REPORT(run, prop, "pad_result_invalid", "new=%d", new_len);
    same_frames(buf.p, new_len, p, "pad");
    twin_decode_equal(p.bytes(), Bytes(buf.p, buf.p + new_len), "pad");
    run.count("pad_ok"); run.api_ok++; run.sg(mix64(p.f.code(), (uint64_t)how));
    // unpad(pad(p)) == unpad(p)
    ExactBuf u1((size_t)new_len), u2((size_t)p.len);
    memcpy(u1.p, buf.p, (size_t)new_len); memcpy(u2.p, p.data(), (size_t)p.len);
    int l1 = opus_packet_unpad(u1.p, new_len), l2 = opus_packet_unpad(u2.p, p.len);
    if (l1 != l2 || l1 <= 0 || memcmp(u1.p, u2.p, (size_t)l1)) REPORT(run, prop, "unpad_of_pad_differs", "l1=%d l2=%d", l1, l2);
    PoolPkt np = make_pool(Bytes(buf.p, buf.p + new_len)); classify_padding(np); add_pool(np);
  }

  void op_unpad(const Op &op) {
    const PoolPkt *pp = pick(op.arg(0)); if (!pp) return; PoolPkt p = *pp;
    ExactBuf buf((size_t)p.len, 0xEE); if (p.len) memcpy(buf.p, p.data(), (size_t)p.len);
    int ret = opus_packet_unpad(buf.p, p.len);
    run.ev((uint64_t)ret); run.count("unpad_calls");
    if (ret == OPUS_INTERNAL_ERROR) { REPORT(run, prop, "unpad_internal_error", "len=%d", p.len); return; }
    if (!p.valid) { if (ret > 0) REPORT(run, prop, "unpad_accepted_invalid", "len=%d ret=%d", p.len, ret); run.fired = true; return; }
    if (ret <= 0) { REPORT(run, prop, strf("unpad_failed_%d", ret), "len=%d", p.len); return; }
    if (ret > p.len) REPORT(run, prop, "unpad_longer_than_input", "%d > %d", ret, p.len);
    same_frames(buf.p, ret, p, "unpad");
    Framed f = model_parse(buf.p, ret, false);
    if (f.ok && f.pad_len != 0) REPORT(run, prop, "unpad_left_padding", "pad_len=%d", f.pad_len);
    // idempotent and canonical
    ExactBuf b2((size_t)ret); memcpy(b2.p, buf.p, (size_t)ret);
    int r2 = opus_packet_unpad(b2.p, ret);
    if (r2 != ret || memcmp(b2.p, buf.p, (size_t)ret)) REPORT(run, prop, "unpad_not_idempotent", "%d -> %d", ret, r2);
    twin_decode_equal(p.bytes(), Bytes(buf.p, buf.p + ret), "unpad");
    run.count("unpad_ok"); run.api_ok++; if (p.f.pad_len > 0) run.fired = true;
  }

  // MSPAD nstreams j0 extra how / MSUNPAD nstreams j0
  void op_ms(const Op &op, bool pad) {
    int ns = (int)(1 + (((op.arg(0) % 8) + 8) % 8));
    std::vector<PoolPkt> subs; Bytes ms;
    for (int s = 0; s < ns; s++) {
      const PoolPkt *pp = nullptr;
      for (int t = 0; t < 8 && !pp; t++) { const PoolPkt *c = pick(op.arg(1) + s * 7 + t); if (c && c->valid) pp = c; }
      if (!pp) return;
      subs.push_back(*pp);
      Bytes padb; const Bytes *ppad = nullptr;
      if (pp->f.pad_len > 0 || pp->f.code() == 3) { padb.assign(pp->data() + pp->f.pad_off, pp->data() + pp->f.pad_off + pp->f.pad_len); }
      bool haspad = pp->f.code() == 3 && (pp->data()[1] & 0x40);
      if (haspad) ppad = &padb;
      Bytes sub = model_build(pp->f.toc, pp->frames, pp->f.code(), pp->f.code() == 3 && (pp->data()[1] & 0x80), ppad, s != ns - 1);
      ms.insert(ms.end(), sub.begin(), sub.end());
    }
    int len = (int)ms.size();
    bool nonext = false; for (auto &p : subs) if (p.pad_syntax == 2) nonext = true;
    if (pad) {
      int how = (int)(((op.arg(3) % 5) + 5) % 5);
      int new_len = how == 0 ? len - 1 : how == 1 ? len : len + (int)(how == 2 ? 1 + op.arg(2) % 3 : op.arg(2) % 2000);
      ExactBuf buf((size_t)std::max(len, new_len), 0xEE); memcpy(buf.p, ms.data(), (size_t)len);
      int ret = opus_multistream_packet_pad(buf.p, len, new_len, ns);
      run.ev((uint64_t)ret); run.count("mspad_calls");
      if (ret == OPUS_INTERNAL_ERROR) { REPORT(run, prop, subs.back().pad_syntax == 2 ? "mspad_internal_error_nonext_padding" : "mspad_internal_error", "ns=%d", ns); return; }
      if (new_len < len) { if (ret != OPUS_BAD_ARG) REPORT(run, prop, "mspad_bad_args_not_rejected", "ret=%d", ret); return; }
      if (ret != OPUS_OK) { REPORT(run, prop, strf("mspad_failed_%d", ret), "ns=%d len=%d new=%d", ns, len, new_len); return; }
      check_ms(buf.p, new_len, subs, "mspad", true);
      run.count("mspad_ok"); run.api_ok++;
    } else {
      ExactBuf buf((size_t)len, 0xEE); memcpy(buf.p, ms.data(), (size_t)len);
      int ret = opus_multistream_packet_unpad(buf.p, len, ns);
      run.ev((uint64_t)ret); run.count("msunpad_calls");
      if (ret == OPUS_INTERNAL_ERROR) { REPORT(run, prop, nonext ? "msunpad_internal_error_nonext_padding" : "msunpad_internal_error", "ns=%d", ns); return; }
      if (ret <= 0) { REPORT(run, prop, strf("msunpad_failed_%d", ret), "ns=%d len=%d", ns, len); return; }
      if (ret > len) REPORT(run, prop, "msunpad_longer_than_input", "%d > %d", ret, len);
      check_ms(buf.p, ret, subs, "msunpad", false);
      ExactBuf b2((size_t)ret); memcpy(b2.p, buf.p, (size_t)ret);
      int r2 = opus_multistream_packet_unpad(b2.p, ret, ns);
      if (r2 != ret || memcmp(b2.p, buf.p, (size_t)ret)) REPORT(run, prop, "msunpad_not_idempotent", "%d -> %d", ret, r2);
      run.count("msunpad_ok"); run.api_ok++;
    }
  }
  void check_ms(const unsigned char *d, int len, const std::vector<PoolPkt> &subs, const char *what, bool exact_len) {
    int pos = 0, ns = (int)subs.size();
    for (int s = 0; s < ns; s++) {
      Framed f = model_parse(d + pos, len - pos, s != ns - 1);
      if (!f.ok) { REPORT(run, prop, strf("%s_stream_invalid", what), "stream %d", s); return; }
      const PoolPkt &p = subs[(size_t)s];
      if (f.nframes != p.f.nframes || (f.toc & 0xFC) != (p.f.toc & 0xFC)) { REPORT(run, prop, strf("%s_stream_frames_changed", what), "stream %d", s); return; }
      for (int i = 0; i < f.nframes; i++)
        if (f.len[i] != (int)p.frames[(size_t)i].size() || (f.len[i] && memcmp(d + pos + f.off[i], p.frames[(size_t)i].data(), (size_t)f.len[i]))) { REPORT(run, prop, strf("%s_stream_frame_bytes_differ", what), "stream %d frame %d", s, i); return; }
      if (!exact_len && f.pad_len) REPORT(run, prop, "msunpad_left_padding", "stream %d", s);
      pos += f.consumed;
    }
    if (pos != len) REPORT(run, prop, strf("%s_length_wrong", what), "consumed %d of %d", pos, len);
  }

  void go(const Plan &p) {
    for (size_t i = 0; i < p.ops.size(); i++) {
      const Op &op = p.ops[i]; run.cur_op = (int)i;
      if (op.k == "ENCNEW") S.op_encnew(op, run);
      else if (op.k == "SRC") S.op_src(op);
      else if (op.k == "CTL") { if (S.enc.alive()) run.ev((uint64_t)S.enc.set((int)op.arg(0), (int)op.arg(1))); }
      else if (op.k == "POOLENC") op_poolenc(op);
      else if (op.k == "POOLSYN") op_poolsyn(op);
      else if (op.k == "POOLBAD") op_poolbad(op);
      else if (op.k == "INIT") op_init(op);
      else if (op.k == "CAT") op_cat(op);
      else if (op.k == "OUT") op_out(op, false);
      else if (op.k == "OUTR") op_out(op, true);
      else if (op.k == "PAD") op_pad(op);
      else if (op.k == "UNPAD") op_unpad(op);
      else if (op.k == "MSPAD") op_ms(op, true);
      else if (op.k == "MSUNPAD") op_ms(op, false);
      if (run.verbose) printf("op %zu %s evhash=%016llx\n", i, op.k.c_str(), (unsigned long long)run.evhash);
    }
  }
};

Plan gen(uint64_t seed, int tier) {
  Rng r(seed);
  Plan p; p.hdr["scenario"] = "boxsim";
  p.ops.push_back(mkop("ENCNEW", {K_SINGLE, r.range(0, 4), r.range(1, 2), r.range(0, 2), 0, 0, -1, (int64_t)r.range(1, 1 << 30)}));
  p.ops.push_back(mkop("CTL", {OPUS_SET_BITRATE_REQUEST, r.pick({6000, 12000, 24000, 64000, 128000, 510000})}));
  if (r.chance(0.6)) p.ops.push_back(mkop("CTL", {11002, r.pick({1000, 1001, 1002})}));
  if (r.chance(0.3)) p.ops.push_back(mkop("CTL", {OPUS_SET_VBR_REQUEST, 0}));
  p.ops.push_back(mkop("SRC", {r.pick({(int)SRC_TONES, (int)SRC_VOICED, (int)SRC_NOISE, (int)SRC_MUSIC, (int)SRC_SILENCE}), r.pick({110, 220, 440, 3000}), r.pick({100, 300, 900}), r.range(1, 1000), 0}));
  int fidx = r.weighted({2, 2, 3, 6, 2, 2, 1, 1, 1});
  int nops = (int)(tier ? r.range(40, 200) : r.range(12, 70));
  // swarm: weights of op kinds
  int w_enc = r.pick({0, 2, 6}), w_syn = r.pick({1, 4, 8}), w_bad = r.pick({0, 1, 3}), w_cat = r.pick({4, 8}), w_out = r.pick({2, 4}), w_outr = r.pick({1, 4}),
      w_init = r.pick({1, 2}), w_pad = r.pick({0, 2, 5}), w_unpad = r.pick({0, 1, 3}), w_ms = r.pick({0, 1, 2});
  int syn_cfg = (int)r.range(0, 63); bool fixed_cfg = r.chance(0.7);
  for (int i = 0; i < 4; i++) p.ops.push_back(mkop("POOLSYN", {fixed_cfg ? syn_cfg : r.range(0, 63), r.range(0, 47), r.pick({-1, -1, 0, 1, 2, 3, 3}), r.range(0, 1), r.weighted({5, 2, 2, 2}), r.pick({0, 1, 2, 10, 253, 254, 255, 256, 600, (int)r.range(0, 2999)}), (int64_t)r.range(1, 1 << 30)}));
  for (int i = 0; i < nops; i++) {
    switch (r.weighted({w_enc, w_syn, w_bad, w_cat, w_out, w_outr, w_init, w_pad, w_unpad, w_ms})) {
      case 0: if (r.chance(0.1)) fidx = r.weighted({2, 2, 3, 6, 2, 2, 1, 1, 1}); p.ops.push_back(mkop("POOLENC", {fidx, r.pick({1500, 1500, 300, 60, 10, 2})})); break;
      case 1: p.ops.push_back(mkop("POOLSYN", {fixed_cfg && r.chance(0.9) ? syn_cfg : r.range(0, 63), r.chance(0.6) ? r.range(0, 3) : r.range(0, 47), r.pick({-1, -1, 0, 1, 2, 3, 3}), r.range(0, 1), r.weighted({5, 2, 2, 2}), r.pick({0, 1, 2, 10, 253, 254, 255, 256, 600, (int)r.range(0, 2999)}), (int64_t)r.range(1, 1 << 30)})); break;
      case 2: p.ops.push_back(mkop("POOLBAD", {r.range(0, 95), r.range(0, 5), (int64_t)r.range(0, 1 << 16)})); break;
      case 3: p.ops.push_back(mkop("CAT", {r.weighted({6, 1, 1}), r.range(0, 95)})); break;
      case 4: p.ops.push_back(mkop("OUT", {r.weighted({6, 1, 1}), 0, 0, 0, r.range(0, 1), (int64_t)r.range(0, 1 << 16)})); break;
      case 5: p.ops.push_back(mkop("OUTR", {r.weighted({6, 1, 1}), r.range(0, 7), r.range(0, 47), r.range(0, 47), r.range(0, 1), (int64_t)r.range(0, 1 << 16)})); break;
      case 6: p.ops.push_back(mkop("INIT", {r.weighted({6, 1, 1})})); break;
      case 7: p.ops.push_back(mkop("PAD", {r.range(0, 95), (int64_t)r.range(0, 1 << 16), r.range(0, 7)})); break;
      case 8: p.ops.push_back(mkop("UNPAD", {r.range(0, 95)})); break;
      case 9: p.ops.push_back(mkop(r.chance(0.5) ? "MSPAD" : "MSUNPAD", {r.range(0, 7), r.range(0, 95), (int64_t)r.range(0, 1 << 16), r.range(0, 4)})); break;
    }
  }
  return p;
}
void exec(const Plan &p, Run &run) { C07 b(run); b.go(p); }
}  // namespace
REGISTER_SCENARIO(C07, "boxsim", gen, exec);
