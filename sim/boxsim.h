// boxsim: a repacketizing middlebox (SFU / gateway / padding proxy) between an encoder and decoders.
// Real OpusRepacketizer / pad / unpad / extension code as the node; a frame-list model + extension-list
// model as the oracle. Serves C07 (frames) and C16 (extensions).
#pragma once
#include "session.h"

struct ExtM { int frame; int id; Bytes payload; };
static inline bool operator==(const ExtM &a, const ExtM &b) { return a.frame == b.frame && a.id == b.id && a.payload == b.payload; }

struct PoolPkt {
  std::shared_ptr<ExactBuf> mem;     // immutable exact-size block the repacketizer may keep pointing into
  int len = 0;
  bool valid = false;                // by the independent framing model
  Framed f;
  std::vector<Bytes> frames;
  bool has_ext_model = false;        // padding was generated from 'exts'
  std::vector<ExtM> exts;
  int pad_syntax = 0;                // 0 none/zeros, 1 well-formed extensions, 2 arbitrary non-extension bytes
  bool real = false;
  const unsigned char *data() const { return mem->p; }
  Bytes bytes() const { return Bytes(mem->p, mem->p + len); }
};

static inline PoolPkt make_pool(const Bytes &b) {
  PoolPkt p; p.len = (int)b.size();
  p.mem = std::make_shared<ExactBuf>(b.size());
  if (!b.empty()) memcpy(p.mem->p, b.data(), b.size());
  p.f = model_parse(b.data(), (int)b.size(), false);
  p.valid = p.f.ok;
  if (p.valid) for (int i = 0; i < p.f.nframes; i++) p.frames.push_back(Bytes(b.begin() + p.f.off[i], b.begin() + p.f.off[i] + p.f.len[i]));
  return p;
}
static inline bool lib_padding_is_ext_syntax(const PoolPkt &p);
static inline void classify_padding(PoolPkt &p) {
  p.pad_syntax = 0;
  if (!p.valid || p.f.pad_len == 0) return;
  bool nz = false; for (int i = 0; i < p.f.pad_len; i++) if (p.data()[p.f.pad_off + i]) nz = true;
  p.pad_syntax = !nz ? 0 : (lib_padding_is_ext_syntax(p) ? 1 : 2);
}

// does the library consider this padding well-formed extension syntax? (classification of findings only)
static inline bool lib_padding_is_ext_syntax(const PoolPkt &p) {
  if (!p.valid || p.f.pad_len == 0) return true;
  int n = opsim_ext_count(p.data() + p.f.pad_off, p.f.pad_len, p.f.nframes);
  std::vector<opsim_ext> tmp((size_t)std::max(n, 0) + 1);
  int nb = (int)tmp.size();
  int r = opsim_ext_parse(p.data() + p.f.pad_off, p.f.pad_len, tmp.data(), &nb, p.f.nframes);
  return r >= 0;
}

struct RpModel {
  unsigned char toc = 0;
  std::vector<Bytes> frames;
  std::vector<int> src;            // pool index each frame came from
  std::vector<int> src_first;      // index (in frames) of the first frame of that source packet
  std::vector<std::shared_ptr<ExactBuf>> hold;   // keeps source packets alive
  void clear() { frames.clear(); src.clear(); src_first.clear(); hold.clear(); }
};

struct Box {
  Run &run; const char *prop;
  Session S;                         // encoder feeding real packets
  std::vector<PoolPkt> pool;
  static const int NRP = 3;
  OpusRepacketizer *rp[NRP] = {nullptr, nullptr, nullptr};
  RpModel rm[NRP];
  Box(Run &r, const char *p) : run(r), prop(p) { for (int i = 0; i < NRP; i++) rp[i] = opus_repacketizer_create(); }
  ~Box() { for (int i = 0; i < NRP; i++) if (rp[i]) opus_repacketizer_destroy(rp[i]); }

  void add_pool(const PoolPkt &p) { if (pool.size() < 96) pool.push_back(p); else pool[(size_t)(run.evhash % 96)] = p; }
  const PoolPkt *pick(int64_t j) const { if (pool.empty()) return nullptr; return &pool[(size_t)(((j % (int64_t)pool.size()) + (int64_t)pool.size()) % (int64_t)pool.size())]; }

  // POOLENC fidx maxbytes : next frame of the live encoder
  void op_poolenc(const Op &op) {
    if (!S.enc.alive() || S.enc.L.kind != K_SINGLE) return;
    int fi = (int)(((op.arg(0) % 9) + 9) % 9);
    int frame = (int)((int64_t)kFrames48[fi] * S.enc.L.fs / 48000);
    if (S.expected_frame(frame) < 0) return;
    std::vector<float> pcm((size_t)frame * S.enc.L.ch);
    src_fill(S.src, S.enc.L.fs, S.enc.L.ch, S.pos, frame, pcm.data());
    Bytes pkt; int mb = (int)std::max<int64_t>(1, op.arg(1, 1500));
    int ret = S.enc.encode(pcm.data(), frame, mb, FMT_F32, pkt);
    run.ev((uint64_t)ret);
    S.pos += frame;
    if (ret <= 0) return;
    PoolPkt p = make_pool(pkt); p.real = true; classify_padding(p);
    add_pool(p); run.count("pool_real"); run.api_ok++;
  }

  static int biased_size(Rng &g) {
    return g.pick({0, 0, 1, 1, 2, 3, 10, 40, 100, 251, 252, 253, 254, 255, 256, 300, 600, 1274, 1275, (int)g.range(0, 1275), (int)g.range(0, 200)});
  }
  // POOLSYN cfg nframes code vbr padkind padlen seed : packet built by the simulator's own framer
  void op_poolsyn(const Op &op) {
    Rng g((uint64_t)op.arg(6, 1) * 0x2545F4914F6CDD1DULL + 11);
    unsigned char toc = (unsigned char)((op.arg(0) & 63) << 2);
    int maxM = std::min(48, 5760 / toc_frame48(toc));
    int M = (int)(1 + (((op.arg(1) % maxM) + maxM) % maxM));
    int code = (int)op.arg(2), padkind = (int)(((op.arg(4) % 4) + 4) % 4);
    bool vbr = op.arg(3) & 1;
    std::vector<Bytes> frames;
    int base = biased_size(g);
    long total = 0;
    for (int i = 0; i < M; i++) {
      int sz = vbr ? biased_size(g) : base;
      if (M > 8 && sz > 300) sz = (int)g.range(0, 300);
      Bytes f((size_t)sz); for (auto &b : f) b = (unsigned char)g.next();
      frames.push_back(f); total += sz;
    }
    if (code < 0 || code > 3) code = -1;
    if (code == 0 && M != 1) code = -1;
    if ((code == 1 || code == 2) && M != 2) code = -1;
    if (code == 1) { frames[1].resize(frames[0].size()); }
    Bytes pad; const Bytes *pp = nullptr;
    std::vector<ExtM> exts; int pad_syntax = 0;
    if (padkind != 0) {
      int pl = (int)(op.arg(5) % 3000);
      if (padkind == 1) { pad.assign((size_t)pl, 0); }
      else if (padkind == 2) { pad.resize((size_t)std::max(pl, 1)); for (auto &b : pad) b = (unsigned char)g.next(); pad_syntax = 2; }
      else {
        // well-formed extensions generated with the library from a small model list
        int ne = (int)g.range(1, 6);
        for (int i = 0; i < ne; i++) {
          ExtM e; e.frame = (int)g.range(0, M - 1); e.id = (int)(g.chance(0.5) ? g.range(3, 31) : g.range(32, 127));
          int plen = e.id < 32 ? (int)g.range(0, 1) : g.pick({0, 1, 2, 10, 100, 253, 254, 255, 256, 300});
          e.payload.resize((size_t)plen); for (auto &b : e.payload) b = (unsigned char)g.next();
          exts.push_back(e);
        }
        std::stable_sort(exts.begin(), exts.end(), [](const ExtM &a, const ExtM &b) { return a.frame < b.frame; });
        std::vector<opsim_ext> le; for (auto &e : exts) le.push_back(opsim_ext{e.id, e.frame, e.payload.data(), (int)e.payload.size()});
        int need = opsim_ext_generate(nullptr, 1 << 20, le.data(), (int)le.size(), M, 0);
        if (need > 0) { pad.resize((size_t)need); opsim_ext_generate(pad.data(), need, le.data(), (int)le.size(), M, 0); pad_syntax = 1; }
        else exts.clear();
      }
      pp = &pad; code = 3;
    }
    Bytes b = model_build(toc, frames, code, vbr, pp, false);
    PoolPkt p = make_pool(b);
    classify_padding(p);
    p.exts = exts; p.has_ext_model = pad_syntax == 1 && p.pad_syntax == 1;
    add_pool(p); run.count("pool_syn");
    if (p.valid) run.count(strf("syn_code%d", p.f.code()));
    if (M >= 3) run.count("syn_ge3_frames");
  }
  // POOLBAD j kind a : corrupted variant of pool[j]
  void op_poolbad(const Op &op) {
    const PoolPkt *src = pick(op.arg(0)); if (!src) return;
    Bytes b = src->bytes(); int kind = (int)(((op.arg(1) % 6) + 6) % 6); int64_t a = op.arg(2);
    switch (kind) {
      case 0: b.resize((size_t)(a % (int64_t)(b.size() + 1))); break;
      case 1: if (!b.empty()) { size_t span = std::min<size_t>(b.size(), 5); size_t bit = (size_t)(a % (int64_t)(span * 8)); b[bit / 8] ^= (unsigned char)(1 << (bit % 8)); } break;
      case 2: if (b.size() > 1) b[1] = (unsigned char)a; break;
      case 3: b.push_back((unsigned char)a); break;
      case 4: if (!b.empty()) b[0] = (unsigned char)((b[0] & 0xFC) | (a & 3)); break;
      case 5: if (!b.empty()) b[0] = (unsigned char)a; break;
    }
    PoolPkt p = make_pool(b); classify_padding(p);
    add_pool(p); run.count(p.valid ? "pool_bad_still_valid" : "pool_invalid"); run.fired = true;
  }
};
