// Shared session machinery of the network engine (netsim): encoder node + decoder replicas + source on one
// sample clock, the common operations (ENCNEW DECNEW SRC CTL ENC) and the packet-validity / lock-step oracle
// that C02, C05 and others reuse.
#pragma once
#include "nodes.h"
#include <memory>

struct CtlDom { int req; int getreq; std::vector<int> legal; };

// legal value domains of encoder setters (used by generators that want *effective* control changes)
static inline const std::vector<CtlDom> &enc_ctl_domains() {
  static std::vector<CtlDom> d = {
    {OPUS_SET_BITRATE_REQUEST, OPUS_GET_BITRATE_REQUEST, {500, 600, 2400, 5000, 6000, 8000, 10000, 12000, 16000, 20000, 24000, 32000, 40000, 48000, 64000, 96000, 128000, 192000, 256000, 320000, 510000, 512000, 1000000, OPUS_AUTO, OPUS_BITRATE_MAX}},
    {OPUS_SET_VBR_REQUEST, OPUS_GET_VBR_REQUEST, {0, 1}},
    {OPUS_SET_VBR_CONSTRAINT_REQUEST, OPUS_GET_VBR_CONSTRAINT_REQUEST, {0, 1}},
    {OPUS_SET_COMPLEXITY_REQUEST, OPUS_GET_COMPLEXITY_REQUEST, {0, 1, 2, 3, 4, 5, 6, 7, 8, 9, 10}},
    {OPUS_SET_BANDWIDTH_REQUEST, OPUS_GET_BANDWIDTH_REQUEST, {OPUS_AUTO, 1101, 1102, 1103, 1104, 1105}},
    {OPUS_SET_MAX_BANDWIDTH_REQUEST, OPUS_GET_MAX_BANDWIDTH_REQUEST, {1101, 1102, 1103, 1104, 1105}},
    {OPUS_SET_FORCE_CHANNELS_REQUEST, OPUS_GET_FORCE_CHANNELS_REQUEST, {OPUS_AUTO, 1, 2}},
    {OPUS_SET_INBAND_FEC_REQUEST, OPUS_GET_INBAND_FEC_REQUEST, {0, 1, 2}},
    {OPUS_SET_PACKET_LOSS_PERC_REQUEST, OPUS_GET_PACKET_LOSS_PERC_REQUEST, {0, 1, 5, 10, 20, 30, 50, 100}},
    {OPUS_SET_DTX_REQUEST, OPUS_GET_DTX_REQUEST, {0, 1}},
    {OPUS_SET_LSB_DEPTH_REQUEST, OPUS_GET_LSB_DEPTH_REQUEST, {8, 10, 12, 16, 20, 24}},
    {OPUS_SET_PREDICTION_DISABLED_REQUEST, OPUS_GET_PREDICTION_DISABLED_REQUEST, {0, 1}},
    {OPUS_SET_PHASE_INVERSION_DISABLED_REQUEST, OPUS_GET_PHASE_INVERSION_DISABLED_REQUEST, {0, 1}},
    {OPUS_SET_SIGNAL_REQUEST, OPUS_GET_SIGNAL_REQUEST, {OPUS_AUTO, OPUS_SIGNAL_VOICE, OPUS_SIGNAL_MUSIC}},
    {OPUS_SET_EXPERT_FRAME_DURATION_REQUEST, OPUS_GET_EXPERT_FRAME_DURATION_REQUEST, {5000, 5000, 5000, 5001, 5002, 5003, 5004, 5005, 5006, 5007, 5008, 5009}},
    {11002 /*OPUS_SET_FORCE_MODE*/, 0, {OPUS_AUTO, 1000, 1001, 1002}},
  };
  return d;
}

struct Packet {
  Bytes data;
  int frame = 0;        // samples per channel at the encoder rate
  int fs = 48000;
  opus_uint32 enc_range = 0;
  long seq = 0;
  int64_t t48 = 0;      // capture time in 48 kHz ticks
};

struct Session {
  EncNode enc;
  std::vector<std::unique_ptr<DecNode>> decs;
  std::vector<int> dec_fmt;
  Source src;
  int64_t pos = 0;            // encoder-rate samples consumed so far
  int64_t t48 = 0;            // sample clock in 48 kHz ticks
  int expert_dur = OPUS_FRAMESIZE_ARG;
  long seq = 0;
  long frames_encoded = 0;
  int last_mode = -1, last_bw = -1, last_ch = -1;
  bool use_variable_app = false;

  // ENCNEW kind fs ch app family layseed cap rseed
  bool op_encnew(const Op &op, Run &run) {
    Layout l;
    l.kind = (int)(((op.arg(0) % 4) + 4) % 4);
    l.fs = kRates[((op.arg(1) % 5) + 5) % 5];
    l.ch = (int)std::max<int64_t>(1, std::min<int64_t>(op.arg(2, 1), 255));
    l.app = kApps[((op.arg(3) % 3) + 3) % 3];
    l.family = (int)op.arg(4);
    Rng lr((uint64_t)op.arg(5) * 77 + 5);
    if (l.kind == K_SINGLE) { l.ch = l.ch > 2 ? 2 : l.ch; }
    if (l.kind == K_MS) {
      // explicit covering layout derived from (ch, layseed)
      int src_ch = l.ch;
      l.coupled = (int)lr.range(0, src_ch / 2);
      l.streams = src_ch - l.coupled;       // streams + coupled == ch source channels
      std::vector<int> perm(src_ch); for (int i = 0; i < src_ch; i++) perm[i] = i;
      for (int i = src_ch - 1; i > 0; i--) std::swap(perm[i], perm[lr.range(0, i)]);
      for (int i = 0; i < src_ch; i++) l.mapping[i] = (unsigned char)perm[i];
      // optional extra channels that duplicate or are silent
      int extra = (int)lr.range(0, 2);
      for (int i = 0; i < extra && l.ch < 255; i++) l.mapping[l.ch++] = lr.chance(0.5) ? 255 : (unsigned char)lr.range(0, src_ch - 1);
    }
    int err = enc.create(l, (uint64_t)op.arg(7, 1), (int)op.arg(6, -1));
    run.ev((uint64_t)err);
    if (err != OPUS_OK || !enc.alive()) return false;
    pos = 0; expert_dur = OPUS_FRAMESIZE_ARG; frames_encoded = 0;
    return true;
  }
  // DECNEW fsidx ch cap fmt : a replica matching the encoder's layout
  bool op_decnew(const Op &op, Run &run) {
    if (!enc.alive()) return false;
    auto d = std::make_unique<DecNode>();
    int fs = kRates[((op.arg(0) % 5) + 5) % 5];
    int ch = (int)(((op.arg(1) % 2) + 2) % 2) + 1;
    int err = d->create_for(enc, fs, ch, (int)op.arg(2, -1));
    run.ev((uint64_t)err);
    if (err != OPUS_OK) return false;
    decs.push_back(std::move(d));
    dec_fmt.push_back((int)(((op.arg(3) % 3) + 3) % 3));
    return true;
  }
  void op_src(const Op &op) {
    src.fam = (int)(((op.arg(0) % SRC_NFAM) + SRC_NFAM) % SRC_NFAM);
    src.p0 = op.arg(1); src.amp = op.arg(2); src.seed = op.arg(3); src.p3 = op.arg(4); src.t0 = t48;
  }
  // expected number of samples the encoder will consume for an API frame_size argument (or -1 = BAD_ARG)
  int expected_frame(int frame_size) const {
    int fs = enc.L.fs, sel;
    if (frame_size < fs / 400) return -1;
    if (expert_dur == OPUS_FRAMESIZE_ARG) sel = frame_size;
    else if (expert_dur >= OPUS_FRAMESIZE_2_5_MS && expert_dur <= OPUS_FRAMESIZE_120_MS) {
      if (expert_dur <= OPUS_FRAMESIZE_40_MS) sel = (fs / 400) << (expert_dur - OPUS_FRAMESIZE_2_5_MS);
      else sel = (expert_dur - OPUS_FRAMESIZE_2_5_MS - 2) * fs / 50;
    } else return -1;
    if (sel > frame_size) return -1;
    if (400 * sel != fs && 200 * sel != fs && 100 * sel != fs && 50 * sel != fs && 25 * sel != fs && 50 * sel != 3 * fs && 50 * sel != 4 * fs && 50 * sel != 5 * fs && 50 * sel != 6 * fs) return -1;
    return sel;
  }
};

// Split a multistream packet into per-stream sub-packets with the independent framing model.
static inline bool model_split_ms(const Bytes &pkt, int streams, std::vector<Framed> &out, std::vector<int> &offs) {
  int pos = 0; out.clear(); offs.clear();
  for (int s = 0; s < streams; s++) {
    bool sd = s != streams - 1;
    if (pos >= (int)pkt.size()) return false;
    Framed f = model_parse(pkt.data() + pos, (int)pkt.size() - pos, sd);
    if (!f.ok) return false;
    out.push_back(f); offs.push_back(pos);
    pos += f.consumed;
  }
  return pos == (int)pkt.size();
}

// Packet validity (library parser and independent model) + duration. Returns "" or a violation class.
static inline std::string check_packet_valid(const Session &S, const Bytes &pkt, int expect_frame, Run &run) {
  int fs = S.enc.L.fs;
  if (S.enc.L.kind == K_SINGLE) {
    Framed f = model_parse(pkt.data(), (int)pkt.size(), false);
    if (!f.ok) return "packet_invalid_model";
    unsigned char toc; opus_int16 sizes[48]; int po;
    int n = opus_packet_parse(pkt.data(), (opus_int32)pkt.size(), &toc, NULL, sizes, &po);
    if (n <= 0) return "packet_invalid_libparse";
    if (n != f.nframes) return "packet_framecount_mismatch";
    int ns = opus_packet_get_nb_samples(pkt.data(), (opus_int32)pkt.size(), fs);
    if (ns != expect_frame) return "packet_duration_mismatch";
    if ((long)toc_frame48(f.toc) * f.nframes * fs != (long)expect_frame * 48000) return "packet_duration_mismatch_model";
    return "";
  }
  std::vector<Framed> subs; std::vector<int> offs;
  if (!model_split_ms(pkt, S.enc.L.streams, subs, offs)) return "mspacket_invalid_model";
  for (auto &f : subs) if ((long)toc_frame48(f.toc) * f.nframes * fs != (long)expect_frame * 48000) return "mspacket_duration_mismatch";
  (void)run;
  return "";
}
