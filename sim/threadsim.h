// threadsim: seeded baton scheduler over real pthreads + ownership / happens-before detector fed by the
// compiler's -fsanitize=thread instrumentation of libopus (our runtime, tsanrt.cc; memtrace variant only).
#pragma once
#include "core.h"

struct TsPre {          // one scheduling decision of the plan
  int mode;             // 0: after `val` traced accesses since the last switch; 1: when the running task enters its val-th new library function since the last switch
  long val;
  long target;          // index (mod runnable others) of the task that gets the baton
};
struct TsConflict { std::string cls, detail; };
struct TsStats {
  long accesses = 0, switches = 0, pre_fired = 0, func_first = 0;
  long nonowned_writable_reads = 0, nonowned_writable_writes = 0, rodata_reads = 0;
  long sync_ops = 0;
  std::vector<long> per_task_accesses;
  std::vector<TsConflict> conflicts;   // first few
};
#define TS_MAX_TASKS 8
// Runs the bodies as tasks under the baton scheduler; exactly one runs at any time. Returns when all finished.
void ts_run(std::vector<std::function<void()>> &bodies, const std::vector<TsPre> &pre, TsStats &st);
// cooperative switch point between API calls (YIELD op); no-op outside a task
void ts_yield(long target);
int ts_current_task();                 // -1 outside tasks
// task-local heap (never reused across tasks); nullptr outside tasks
void *ts_task_alloc(size_t n);
bool ts_task_owns(const void *p);      // p inside any task arena
