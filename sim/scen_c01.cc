// C01 — decoding is total and memory-safe for arbitrary packets and call histories (netsim `hostile`).
#include "session.h"

namespace {

struct Hostile {
  Run &run;
  const char *prop = "C01";
  Session S;                 // main encoder + source
  EncNode aux; Source aux_src; int64_t aux_pos = 0;    // second session (other rate/channels/mode) for CROSS
  DecNode rx; int rx_kind = K_SINGLE;
  std::vector<Bytes> pool;
  Bytes inflight; bool have = false; int keep = 0;
  Bytes stash; bool have_stash = false;
  unsigned faultmask = 0;
  explicit Hostile(Run &r) : run(r) {}

  void op_rxnew(const Op &op) {
    int kind = (int)(((op.arg(0) % 3) + 3) % 3);
    int fs = kRates[((op.arg(1) % 5) + 5) % 5];
    int cap = (int)op.arg(3, -1);
    int err = OPUS_OK;
    if (kind == 0 || !S.enc.alive() || S.enc.L.kind == K_SINGLE) {
      kind = 0; err = rx.create_single(fs, (int)(((op.arg(2) % 2) + 2) % 2) + 1, cap);
    } else if (kind == 2 && S.enc.L.kind == K_PROJ) {
      err = rx.create_for(S.enc, fs, 0, cap);
    } else if (S.enc.L.kind == K_PROJ) {
      // plain multistream decoder on a projection stream layout (identity-ish mapping)
      Layout l = S.enc.L; int src = l.streams + l.coupled;
      l.ch = std::min(src, 8); for (int i = 0; i < l.ch; i++) l.mapping[i] = (unsigned char)i;
      kind = 1; err = rx.create_ms(fs, l, cap);
    } else {
      kind = 1;
      Layout l = S.enc.L;
      Rng lr((uint64_t)op.arg(4) * 31 + 7);
      if (op.arg(4) % 3 != 0) {   // arbitrary mapping with duplicates and 255
        int src = l.streams + l.coupled;
        l.ch = (int)lr.range(1, 8);
        for (int i = 0; i < l.ch; i++) l.mapping[i] = lr.chance(0.2) ? 255 : (unsigned char)lr.range(0, src - 1);
      }
      err = rx.create_ms(fs, l, cap);
    }
    rx_kind = kind;
    run.ev((uint64_t)err);
    if (err != OPUS_OK) rx.destroy();
  }

  void op_auxnew(const Op &op) {
    Layout l; l.kind = K_SINGLE; l.fs = kRates[((op.arg(0) % 5) + 5) % 5]; l.ch = (int)(((op.arg(1) % 2) + 2) % 2) + 1;
    l.app = kApps[((op.arg(2) % 3) + 3) % 3];
    aux.create(l, (uint64_t)op.arg(3, 1), -1);
    if (aux.alive()) {
      if (op.arg(4) >= 0) aux.set(11002, (int)(1000 + op.arg(4) % 3));
      aux.set(OPUS_SET_BITRATE_REQUEST, (int)op.arg(5, 24000));
    }
    aux_src.fam = SRC_VOICED; aux_src.p0 = 150; aux_src.amp = 500; aux_pos = 0;
  }

  void op_pkt(const Op &op) {
    bool use_aux = op.arg(0) == 1 && aux.alive();
    EncNode &e = use_aux ? aux : S.enc;
    if (!e.alive()) return;
    int fi = (int)(((op.arg(1) % 9) + 9) % 9);
    int frame = (int)((int64_t)kFrames48[fi] * e.L.fs / 48000);
    if (!use_aux) { int ex = S.expected_frame(frame); if (ex < 0) return; }
    std::vector<float> pcm((size_t)frame * e.L.ch);
    src_fill(use_aux ? aux_src : S.src, e.L.fs, e.L.ch, use_aux ? aux_pos : S.pos, frame, pcm.data());
    Bytes pkt;
    int mb = (int)op.arg(2, 1500); if (mb < 1) mb = 1;
    int fmt = (int)(((op.arg(3) % 3) + 3) % 3);
    if ((use_aux ? aux_src : S.src).fam == SRC_NONFINITE) fmt = FMT_F32;
    int ret = e.encode(pcm.data(), frame, mb, fmt, pkt);
    run.ev((uint64_t)ret);
    (use_aux ? aux_pos : S.pos) += frame;
    if (ret <= 0) return;
    S.frames_encoded++;
    if (keep > 0 && have) { if (pool.size() < 64) pool.push_back(pkt); run.count("pkt_shadowed_by_repeat"); return; }   // a stuck / replaying sender: the fresh packet never arrives
    inflight = pkt; have = true; keep = 0; faultmask = 0;
    if (pool.size() < 64) pool.push_back(pkt); else pool[(size_t)(run.evhash % 64)] = pkt;
    run.count(use_aux ? "pkt_aux" : "pkt_main");
    static const char *mn[3] = {"mode_silk", "mode_hybrid", "mode_celt"};
    if (e.L.kind == K_SINGLE) run.count(mn[toc_mode(pkt[0])]);
  }

  // structured garbage: a legal-looking header over random payload
  static Bytes make_garbage(Rng &g, int shape, int len, int streams) {
    Bytes out;
    for (int s = 0; s < streams; s++) {
      bool sd = s != streams - 1;
      int M = 1, code = shape & 3;
      unsigned char toc = (unsigned char)((g.range(0, 31) << 3) | (g.range(0, 1) << 2));
      if (shape & 16) toc = (unsigned char)(((16 + g.range(0, 3) * 4 + g.range(0, 1)) << 3) | (g.range(0, 1) << 2));   // CELT 2.5 / 5 ms: strongest inter-frame energy prediction
      std::vector<Bytes> frames;
      if (code == 1 || code == 2) M = 2;
      if (code == 3) { int maxM = 5760 / toc_frame48(toc); M = (int)g.range(1, std::min(48, maxM)); if (g.chance(0.1)) M = (int)g.range(0, 63); }
      int per = streams > 1 ? std::max(0, len / streams) : len;
      for (int i = 0; i < M && i < 63; i++) {
        int fl = code == 1 || (code == 3 && !(shape & 4)) ? (M ? per / (M ? M : 1) : 0) : (int)g.range(0, std::max(0, 2 * per / (M ? M : 1)));
        if (fl > 1275 && !g.chance(0.05)) fl = 1275;
        Bytes f((size_t)fl); for (auto &b : f) b = (unsigned char)g.next();
        if (g.chance(0.1)) std::fill(f.begin(), f.end(), g.chance(0.5) ? 0x00 : 0xFF);
        frames.push_back(f);
      }
      if (frames.empty()) frames.push_back(Bytes());
      Bytes pad;
      bool use_pad = code == 3 && (shape & 8);
      if (use_pad) { pad.resize((size_t)g.pick({0, 1, 2, 253, 254, 255, 256, 509, 510, (int)g.range(0, 700)})); for (auto &b : pad) b = g.chance(0.7) ? 0 : (unsigned char)g.next(); }
      Bytes sub = model_build(toc, frames, code, (shape & 4) != 0, use_pad ? &pad : nullptr, sd);
      out.insert(out.end(), sub.begin(), sub.end());
    }
    return out;
  }

  void op_net(const Op &op) {
    int kind = (int)op.arg(0);
    Rng g((uint64_t)op.arg(3, 1) * 0x9E3779B97F4A7C15ULL + (uint64_t)kind);
    auto need = [&]() { return have && !inflight.empty(); };
    switch (kind) {
      case 0: if (have) { have = false; run.count("f_drop"); faultmask |= 1; } break;
      case 1: if (have) { keep = std::max(keep, 1); run.count("f_dup"); faultmask |= 2; } break;
      case 12: if (have) { keep = (int)(2 + op.arg(1) % 30); run.count("f_repeat"); faultmask |= 4096; } break;   // the same packet delivered again and again (stuck sender / replay)
      case 2: if (need()) { inflight.resize((size_t)(op.arg(1) % (int64_t)(inflight.size() + 1))); run.count("f_trunc"); faultmask |= 4; } break;
      case 3: if (need()) {
        int nb = (int)(1 + op.arg(2) % 8);
        for (int i = 0; i < nb; i++) {
          size_t span = (op.arg(1) & 1) ? std::min<size_t>(inflight.size(), 6) : inflight.size();
          size_t bit = (size_t)(g.next() % (span * 8));
          inflight[bit / 8] ^= (unsigned char)(1u << (bit % 8));
        }
        run.count("f_flip"); faultmask |= 8;
      } break;
      case 4: if (need()) { inflight[(size_t)(op.arg(1) % (int64_t)inflight.size())] = (unsigned char)op.arg(2); run.count("f_set"); faultmask |= 16; } break;
      case 5: if (have) { int n = (int)(op.arg(1) % 600); for (int i = 0; i < n; i++) inflight.push_back((unsigned char)g.next()); run.count("f_append"); faultmask |= 32; } break;
      case 6: if (need() && !pool.empty()) {
        const Bytes &o = pool[(size_t)(op.arg(1) % (int64_t)pool.size())];
        size_t cut = (size_t)(op.arg(2) % (int64_t)(inflight.size() + 1));
        Bytes n(inflight.begin(), inflight.begin() + cut);
        if (cut < o.size()) n.insert(n.end(), o.begin() + cut, o.end());
        inflight = n; run.count("f_splice"); faultmask |= 64;
      } break;
      case 7: if (need()) { inflight[0] = (unsigned char)op.arg(1); run.count("f_tocswap"); faultmask |= 128; } break;
      case 8: if (!pool.empty()) { inflight = pool[(size_t)(op.arg(1) % (int64_t)pool.size())]; have = true; run.count("f_cross"); faultmask |= 256; } break;
      case 9: { int streams = rx_kind == K_SINGLE ? 1 : std::max(1, rx.L.streams);
                inflight = make_garbage(g, (int)op.arg(1), (int)(op.arg(2) % 3000), streams); have = true; run.count("f_garbage"); faultmask |= 512; } break;
      case 10: { int n = (int)(op.arg(1) % 8193); inflight.resize((size_t)n); for (auto &b : inflight) b = (unsigned char)g.next(); have = true; run.count("f_random"); faultmask |= 1024; } break;
      case 11: { std::swap(inflight, stash); std::swap(have, have_stash); run.count("f_reorder"); faultmask |= 2048; } break;
    }
    if (faultmask) run.fired = true;
  }

  void inspect(const Bytes &b) {
    // every packet-inspection function on an exact-size copy (len >= 1)
    if (b.empty()) return;
    ExactBuf pk(b.size()); memcpy(pk.p, b.data(), b.size());
    int len = (int)b.size();
    unsigned char toc; const unsigned char *frames[48]; opus_int16 sizes[48]; int po;
    int n = opus_packet_parse(pk.p, len, &toc, frames, sizes, &po);
    run.ev((uint64_t)n);
    if (n < 0 && n != OPUS_INVALID_PACKET && n != OPUS_BAD_ARG) REPORT(run, prop, strf("parse_undocumented_error_%d", n), "len=%d", len);
    if (n > 48) REPORT(run, prop, "parse_too_many_frames", "n=%d", n);
    if (n > 0) for (int i = 0; i < n; i++) {
      if (sizes[i] < 0 || frames[i] < pk.p || frames[i] + sizes[i] > pk.p + len) REPORT(run, prop, "parse_frame_outside_packet", "frame %d", i);
    }
    for (int fs : kRates) {
      int ns = opus_packet_get_nb_samples(pk.p, len, fs); run.ev((uint64_t)ns);
      if (ns < 0 && ns != OPUS_INVALID_PACKET && ns != OPUS_BAD_ARG) REPORT(run, prop, "inspect_undocumented_error", "nb_samples=%d", ns);
      run.ev((uint64_t)opus_packet_get_samples_per_frame(pk.p, fs));
    }
    run.ev((uint64_t)opus_packet_get_nb_frames(pk.p, len));
    run.ev((uint64_t)opus_packet_get_bandwidth(pk.p));
    run.ev((uint64_t)opus_packet_get_nb_channels(pk.p));
    int lb = opus_packet_has_lbrr(pk.p, len); run.ev((uint64_t)lb);
    if (lb < 0 && lb != OPUS_INVALID_PACKET && lb != OPUS_BAD_ARG) REPORT(run, prop, "inspect_undocumented_error", "has_lbrr=%d", lb);
    if (rx.d) run.ev((uint64_t)opus_decoder_get_nb_samples(rx.d, pk.p, len));
    run.count("inspected");
  }

  // announced duration (samples at rx rate) if the framing is valid for this receiver kind, else -1
  int announced(const Bytes &b) {
    if (b.empty()) return -1;
    if (rx_kind == K_SINGLE) {
      Framed f = model_parse(b.data(), (int)b.size(), false);
      if (!f.ok) return -1;
      return (int)((int64_t)toc_frame48(f.toc) * f.nframes * rx.fs / 48000);
    }
    std::vector<Framed> subs; std::vector<int> offs;
    Bytes tmp = b;
    // multistream: every stream's sub-packet valid and of equal duration; trailing bytes belong to the last (standard) one
    int pos = 0, dur = -1, streams = rx.L.streams;
    for (int s = 0; s < streams; s++) {
      if (pos >= (int)b.size()) return -1;
      Framed f = model_parse(b.data() + pos, (int)b.size() - pos, s != streams - 1);
      if (!f.ok) return -1;
      int d = toc_frame48(f.toc) * f.nframes;
      if (dur >= 0 && d != dur) return -1;
      dur = d; pos += f.consumed;
    }
    return (int)((int64_t)dur * rx.fs / 48000);
  }

  void op_rx(const Op &op) {
    if (!rx.alive()) return;
    int how = (int)(((op.arg(0) % 5) + 5) % 5), fcode = (int)(((op.arg(1) % 11) + 11) % 11);
    int fec = (int)op.arg(2), fmt = (int)(((op.arg(3) % 3) + 3) % 3);
    if (how == 4 && rx_kind != K_SINGLE) how = 1;   // NULL data with len>0 is only defined as "loss" for the single-stream decoder
    const Bytes *b = have ? &inflight : nullptr;
    if (!b || how == 1) how = 1;
    int ann = b ? announced(*b) : -1;
    int libdur = -1;
    if (b && !b->empty() && rx_kind == K_SINGLE) libdur = opus_packet_get_nb_samples(b->data(), (int)b->size(), rx.fs);
    int base = ann > 0 ? ann : (libdur > 0 ? libdur : rx.fs / 50);
    int frame_size;
    switch (fcode) {
      case 0: frame_size = base; break;
      case 1: frame_size = base - 1; break;
      case 2: frame_size = 0; break;
      case 3: frame_size = 1; break;
      case 4: frame_size = rx.fs / 400 - 1; break;
      case 5: frame_size = base + 7; break;
      case 6: frame_size = rx.fs * 3 / 25; break;
      case 7: frame_size = rx.fs; break;
      case 8: frame_size = (int)(op.arg(4) % (rx.fs + 1)); break;
      case 9: frame_size = base * 2; break;
      default: frame_size = rx.fs / 400 * (int)(1 + op.arg(4) % 48); break;
    }
    if (frame_size > rx.fs) frame_size = rx.fs;
    if (b && how != 1) inspect(*b);
    const unsigned char *data = nullptr; int len = 0;
    Bytes copy;
    if (how == 0 && b) { copy = *b; data = copy.data(); len = (int)copy.size(); if (copy.empty()) { static unsigned char z = 0; data = &z; } }
    else if (how == 2 && b) { copy = *b; static unsigned char z = 0; data = copy.empty() ? &z : copy.data(); len = 0; }
    else if (how == 3 && b && !b->empty()) { copy = *b; copy.resize((size_t)(op.arg(4) % (int64_t)b->size())); static unsigned char z = 0; data = copy.empty() ? &z : copy.data(); len = (int)copy.size(); if (len == 0) how = 2; }
    else if (how == 4) { data = nullptr; len = b && !b->empty() ? (int)b->size() : 10; }
    else { how = 1; data = nullptr; len = 0; }
    std::vector<float> pcm; uint64_t rh = 0; bool can = true, fin = true;
    int ret;
    if (how == 4) {
      // NULL with len>0: cannot go through the exact-size copy
      size_t ss = fmt == FMT_I16 ? 2 : 4; ExactBuf ob((size_t)std::max(frame_size, 0) * rx.ch * ss, 0xFF);
      ret = fmt == FMT_I16 ? opus_decode(rx.d, nullptr, len, (opus_int16 *)ob.p, frame_size, fec)
          : fmt == FMT_I24 ? opus_decode24(rx.d, nullptr, len, (opus_int32 *)ob.p, frame_size, fec)
                           : opus_decode_float(rx.d, nullptr, len, (float *)ob.p, frame_size, fec);
      can = ob.tail_ok();
      if (ret > 0 && fmt == FMT_F32) for (long i = 0; i < (long)ret * rx.ch && ret <= frame_size; i++) if (!std::isfinite(((float *)ob.p)[i])) fin = false;
    } else {
      ret = rx.decode(data, len, frame_size, fec, fmt, &pcm, &rh, &can, &fin);
    }
    run.ev((uint64_t)ret); run.ev(rh);
    run.count("rx_calls");
    // ---- oracle
    if (!can) REPORT(run, prop, "dec_wrote_past_buffer", "frame_size=%d ret=%d", frame_size, ret);
    if (ret == 0 || ret > frame_size) REPORT(run, prop, "dec_bad_return", "ret=%d frame_size=%d", ret, frame_size);
    if (ret < 0 && ret != OPUS_BAD_ARG && ret != OPUS_BUFFER_TOO_SMALL && ret != OPUS_INVALID_PACKET)
      REPORT(run, prop, strf("dec_undocumented_error_%d", ret), "how=%d frame_size=%d fec=%d len=%d", how, frame_size, fec, len);
    if (!fin) REPORT(run, prop, "dec_nonfinite_output", "how=%d frame_size=%d fec=%d", how, frame_size, fec);
    if (ret > 0) {
      run.api_ok++; run.sim_samples48 += (long)ret * 48000 / rx.fs;
      if (how == 1 || how == 2 || how == 4) run.count("rx_plc"); else if (fec == 1) run.count("rx_fec"); else run.count("rx_decoded");
    } else run.count(strf("rx_err%d", ret));
    if (ret > 0) {
      // documented: duration of the last packet successfully decoded or concealed
      opus_int32 lpd = -1; rx.get(OPUS_GET_LAST_PACKET_DURATION_REQUEST, &lpd);
      if (lpd != ret) REPORT(run, prop, "last_packet_duration_wrong", "ret=%d reported=%d how=%d fec=%d", ret, lpd, how, fec);
    }
    if (how == 0 && ann > 0 && fec == 0 && frame_size >= ann) {
      run.count("valid_framing_checked");
      opus_int32 lpd = -1; rx.get(OPUS_GET_LAST_PACKET_DURATION_REQUEST, &lpd);
      if (ret != ann) REPORT(run, prop, "valid_packet_wrong_count", "ret=%d announced=%d frame_size=%d len=%d toc=%02x kind=%d", ret, ann, frame_size, len, data[0], rx_kind);
      if (lpd != ret) REPORT(run, prop, "last_packet_duration_wrong", "ret=%d reported=%d", ret, lpd);
    }
    run.sg(mix64(mix64(how * 16 + fcode, (uint64_t)(fec + 2)), mix64((uint64_t)(ret < 0 ? ret : (ret > 0)), faultmask ^ ((b && !b->empty()) ? (uint64_t)((*b)[0] >> 3) << 16 : 0))));
    if (keep > 0) keep--; else have = false;
  }

  void op_dctl(const Op &op) {
    if (!rx.alive()) return;
    int which = (int)(((op.arg(0) % 5) + 5) % 5), v = (int)op.arg(1), r = 0;
    switch (which) {
      case 0: r = rx.reset(); run.count("d_reset"); break;
      case 1: r = rx.set(OPUS_SET_GAIN_REQUEST, v); run.count("d_gain"); break;
      case 2: r = rx.set(OPUS_SET_COMPLEXITY_REQUEST, v); break;
      case 3: r = rx.set(OPUS_SET_PHASE_INVERSION_DISABLED_REQUEST, v); break;
      case 4: { opus_int32 x = 0; r = rx.get(OPUS_GET_PITCH_REQUEST, &x); run.ev((uint64_t)x); x = 0; rx.get(OPUS_GET_BANDWIDTH_REQUEST, &x); run.ev((uint64_t)x); break; }
    }
    run.ev((uint64_t)r);
    if (r == OPUS_INTERNAL_ERROR) REPORT(run, prop, "dctl_internal_error", "which=%d v=%d", which, v);
  }

  void go(const Plan &p) {
    for (size_t i = 0; i < p.ops.size(); i++) {
      const Op &op = p.ops[i]; run.cur_op = (int)i;
      if (op.k == "ENCNEW") S.op_encnew(op, run);
      else if (op.k == "AUXNEW") op_auxnew(op);
      else if (op.k == "RXNEW") op_rxnew(op);
      else if (op.k == "SRC") S.op_src(op);
      else if (op.k == "CTL") { if (S.enc.alive()) { int r = S.enc.set((int)op.arg(0), (int)op.arg(1)); run.ev((uint64_t)r); if (r == OPUS_OK && op.arg(0) == OPUS_SET_EXPERT_FRAME_DURATION_REQUEST) S.expert_dur = (int)op.arg(1); } }
      else if (op.k == "PKT") op_pkt(op);
      else if (op.k == "NET") op_net(op);
      else if (op.k == "RX") op_rx(op);
      else if (op.k == "DCTL") op_dctl(op);
      if (run.verbose) printf("op %zu %s evhash=%016llx\n", i, op.k.c_str(), (unsigned long long)run.evhash);
    }
  }
};

Plan gen(uint64_t seed, int tier) {
  Rng r(seed);
  Plan p; p.hdr["scenario"] = "hostile";
  int rxkind = r.weighted({6, 3, 1});
  int ekind = rxkind == 0 ? K_SINGLE : rxkind == 2 ? K_PROJ : r.pick({(int)K_SURROUND, (int)K_SURROUND, (int)K_MS});
  Layout l; gen_layout(r, l, ekind, tier ? 11 : 6);
  int host = host_arch();
  p.ops.push_back(mkop("ENCNEW", {ekind, r.range(0, 4), l.ch, r.range(0, 2), l.family, (int64_t)r.range(0, 1 << 20), -1, (int64_t)r.range(1, 1 << 30)}));
  if (rxkind == 0) p.ops.push_back(mkop("AUXNEW", {r.range(0, 4), r.range(0, 1), r.range(0, 2), (int64_t)r.range(1, 1 << 30), r.range(-1, 2), r.pick({6000, 12000, 24000, 64000, 128000})}));
  p.ops.push_back(mkop("RXNEW", {rxkind, r.range(0, 4), r.range(0, 1), r.chance(0.5) ? -1 : r.range(0, host), (int64_t)r.range(0, 1 << 20)}));
  auto &doms = enc_ctl_domains();
  auto push_ctl = [&]() {
    const CtlDom &d = doms[r.range(0, (int64_t)doms.size() - 1)];
    if (d.req == OPUS_SET_EXPERT_FRAME_DURATION_REQUEST) return;
    int v = d.legal[r.range(0, (int64_t)d.legal.size() - 1)];
    if (d.req == OPUS_SET_BITRATE_REQUEST) v = (int)r.pick({6000, 8000, 12000, 16000, 24000, 32000, 64000, 128000, 256000, (int)r.range(500, 300000)});
    p.ops.push_back(mkop("CTL", {d.req, v}));
  };
  auto push_src = [&]() { p.ops.push_back(mkop("SRC", {r.weighted({1, 1, 4, 2, 5, 3, 1, 1, 2, 0, 0, 1, 4, 1, 1, 2}), r.pick({60, 110, 220, 440, 1000, 3000, 7000}), r.pick({10, 100, 300, 500, 900, 1000}), r.range(1, 1000), r.range(0, 1000)})); };
  for (int i = (int)r.range(0, 3); i > 0; i--) push_ctl();
  if (r.chance(0.7)) p.ops.push_back(mkop("CTL", {11002, r.pick({1000, 1000, 1001, 1001, 1001, 1002, -1000})}));
  push_src();
  int ncalls = (int)(tier ? r.range(60, 400) : r.range(15, 90));
  int fidx = r.weighted({1, 1, 5, 9, 3, 3, 1, 1, 1});
  // swarm: which fault kinds are enabled in this run
  std::vector<int> kinds;
  for (int k = 0; k <= 12; k++) if (r.chance(0.45)) kinds.push_back(k);
  if (kinds.empty()) kinds.push_back((int)r.range(2, 10));
  double pfault = r.pick({0.1, 0.3, 0.6, 0.9}), pdctl = r.pick({0.0, 0.05, 0.2}), ploss = r.pick({0.0, 0.05, 0.2});
  bool shapes = r.chance(0.6);
  bool replay_attack = r.chance(0.15);   // a hostile sender that keeps replaying one crafted packet: state that accumulates over identical frames
  for (int i = 0; i < ncalls; i++) {
    if (replay_attack && r.chance(0.5)) {
      int reps = (int)r.range(6, 30);
      if (r.chance(0.7)) p.ops.push_back(mkop("NET", {9, r.chance(0.6) ? 16 + r.range(0, 15) : r.range(0, 15), r.pick({2, 4, 8, 16, 22, 30, 40, 80, 200}), (int64_t)r.range(1, 1 << 30)}));
      else { p.ops.push_back(mkop("PKT", {0, r.weighted({3, 3, 2, 2, 1, 1, 0, 0, 0}), 1500, r.range(0, 2)})); p.ops.push_back(mkop("NET", {r.pick({3, 4, 7}), (int64_t)r.range(0, 1 << 16), (int64_t)r.range(0, 1 << 16), (int64_t)r.range(1, 1 << 30)})); }
      p.ops.push_back(mkop("NET", {12, reps, 0, 1}));
      int fmt = r.chance(0.7) ? 2 : (int)r.range(0, 1);
      for (int k = 0; k < reps && i < ncalls; k++, i++) p.ops.push_back(mkop("RX", {0, r.pick({0, 6, 6}), 0, fmt, 0}));
      continue;
    }
    if (r.chance(0.1)) push_ctl();
    if (r.chance(0.04)) push_src();
    if (r.chance(0.1)) fidx = r.weighted({1, 1, 5, 9, 3, 3, 1, 1, 1});
    if (r.chance(0.03)) p.ops.push_back(mkop("CTL", {11002, r.pick({1000, 1001, 1002, -1000})}));
    if (r.chance(0.85)) p.ops.push_back(mkop("PKT", {rxkind == 0 && r.chance(0.15) ? 1 : 0, fidx, r.pick({1500, 1500, 1276, 300, 60, 20, 8, 3, 2}), r.range(0, 2)}));
    if (r.chance(pfault)) {
      int nf = (int)r.range(1, 3);
      for (int j = 0; j < nf; j++) {
        int k = kinds[r.range(0, (int64_t)kinds.size() - 1)];
        p.ops.push_back(mkop("NET", {k, (int64_t)r.range(0, 1 << 16), (int64_t)r.range(0, 1 << 16), (int64_t)r.range(1, 1 << 30)}));
      }
    }
    int how = r.chance(ploss) ? 1 : (shapes ? r.weighted({12, 1, 1, 2, 1}) : 0);
    int fcode = shapes ? r.weighted({10, 2, 1, 1, 1, 2, 3, 2, 3, 2, 3}) : r.weighted({8, 0, 0, 0, 0, 0, 2, 1, 0, 1, 1});
    int fec = r.pick({0, 0, 0, 0, 0, 1, 1, shapes ? -1 : 0, shapes ? 2 : 1});
    p.ops.push_back(mkop("RX", {how, fcode, fec, r.range(0, 2), (int64_t)r.range(0, 1 << 20)}));
    if (r.chance(pdctl)) p.ops.push_back(mkop("DCTL", {r.range(0, 4), r.chance(0.5) ? r.range(-32768, 32767) : r.pick({0, 1, 5, 10, -1, 11, 256, -256, 32767, -32768})}));
  }
  return p;
}

void exec(const Plan &p, Run &run) { Hostile h(run); h.go(p); }

}  // namespace
REGISTER_SCENARIO(C01, "hostile", gen, exec);
