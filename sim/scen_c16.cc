// C16 — packet extensions round-trip through generate, parse and repacketize (boxsim `ext`).
#include "boxsim.h"

namespace {

typedef std::vector<ExtM> ExtList;

static std::vector<std::vector<std::pair<int, Bytes>>> per_frame(const ExtList &l, int nf) {
  std::vector<std::vector<std::pair<int, Bytes>>> out((size_t)nf);
  for (auto &e : l) if (e.frame >= 0 && e.frame < nf) out[(size_t)e.frame].push_back({e.id, e.payload});
  return out;
}
static std::vector<opsim_ext> to_lib(const ExtList &l) {
  std::vector<opsim_ext> v; for (auto &e : l) v.push_back(opsim_ext{e.id, e.frame, e.payload.data(), (int)e.payload.size()}); return v;
}

struct C16 : Box {
  explicit C16(Run &r) : Box(r, "C16") {}
  std::vector<PoolPkt> held;

  static ExtList gen_list(Rng &g, int nf, int n, int paymax, int pattern) {
    ExtList l;
    auto payload = [&](int id) {
      int len = id < 32 ? (int)g.range(0, 1) : g.pick({0, 0, 1, 2, 3, 10, 100, 253, 254, 255, 256, 257, 509, 510, 511, 765, (int)g.range(0, std::max(0, paymax))});
      if (len > paymax && id >= 32) len = paymax;
      Bytes b((size_t)len); for (auto &x : b) x = (unsigned char)g.next(); return b;
    };
    if (pattern == 1 || pattern == 2) {
      // repeat-eligible: every frame carries the same id sequence (pattern 2: last frames deviate)
      int k = std::max(1, std::min(n / std::max(nf, 1), 4)); std::vector<int> ids;
      for (int i = 0; i < k; i++) ids.push_back((int)(g.chance(0.5) ? g.range(3, 31) : g.range(32, 127)));
      std::vector<int> shortlen; for (int id : ids) shortlen.push_back((int)g.range(0, 1));
      for (int f = 0; f < nf; f++) for (int i = 0; i < k; i++) {
        ExtM e; e.frame = f; e.id = ids[(size_t)i];
        if (pattern == 2 && f == nf - 1 && g.chance(0.5)) e.id = (int)g.range(3, 127);
        e.payload = payload(e.id);
        if (e.id < 32 && e.id == ids[(size_t)i]) e.payload.resize((size_t)shortlen[(size_t)i], 0x5C);
        l.push_back(e);
      }
      if (pattern == 2 && g.chance(0.5)) { ExtM e; e.frame = (int)g.range(0, nf - 1); e.id = (int)g.range(3, 127); e.payload = payload(e.id); l.push_back(e); }
    } else {
      for (int i = 0; i < n; i++) { ExtM e; e.frame = (int)g.range(0, nf - 1); e.id = (int)(g.chance(0.4) ? g.range(3, 31) : g.range(32, 127)); e.payload = payload(e.id); l.push_back(e); }
      if (pattern == 0) std::stable_sort(l.begin(), l.end(), [](const ExtM &a, const ExtM &b) { return a.frame < b.frame; });
    }
    return l;
  }

  // parse bytes with every entry point and check they agree; returns the parsed list (bitstream order). ok=false on parse error.
  ExtList parse_all(const unsigned char *d, int len, int nf, bool &ok, const char *ctx) {
    ExtList out; ok = false;
    ExactBuf buf((size_t)len); if (len) memcpy(buf.p, d, (size_t)len);
    int cnt = opsim_ext_count(buf.p, len, nf);
    std::vector<int> hist((size_t)std::max(nf, 1), 0);
    int cnt2 = nf <= 48 ? opsim_ext_count_ext(buf.p, len, hist.data(), nf) : cnt;
    run.ev((uint64_t)cnt); run.ev((uint64_t)cnt2);
    if (cnt < 0 || cnt2 < 0) REPORT(run, prop, "ext_count_negative", "%s count=%d count_ext=%d", ctx, cnt, cnt2);
    if (cnt != cnt2) REPORT(run, prop, "ext_count_vs_count_ext", "%s %d vs %d", ctx, cnt, cnt2);
    std::vector<opsim_ext> v((size_t)cnt + 2); int nb = (int)v.size();
    int r = opsim_ext_parse(buf.p, len, v.data(), &nb, nf);
    run.ev((uint64_t)r);
    std::vector<opsim_ext> it((size_t)cnt + 2);
    int ni = opsim_ext_iterate(buf.p, len, nf, -1, it.data(), (int)it.size());
    run.ev((uint64_t)ni);
    if (r < 0) {
      if (r != OPUS_INVALID_PACKET && r != OPUS_BUFFER_TOO_SMALL) REPORT(run, prop, strf("ext_parse_undocumented_error_%d", r), "%s", ctx);
      if (ni >= 0) REPORT(run, prop, "ext_iterator_vs_parse_disagree", "%s parse=%d iterate=%d", ctx, r, ni);
      run.count("ext_parse_rejected");
      return out;
    }
    if (nb != cnt) REPORT(run, prop, "ext_parse_vs_count", "%s parse %d count %d", ctx, nb, cnt);
    if (ni != nb) REPORT(run, prop, "ext_iterator_vs_parse_disagree", "%s parse=%d iterate=%d", ctx, nb, ni);
    std::vector<int> h2((size_t)std::max(nf, 1), 0);
    for (int i = 0; i < nb; i++) {
      const opsim_ext &e = v[(size_t)i];
      if (e.frame < 0 || e.frame >= nf) REPORT(run, prop, "ext_frame_out_of_range", "%s frame %d of %d", ctx, e.frame, nf);
      if (e.len < 0 || (e.len > 0 && (e.data < buf.p || e.data + e.len > buf.p + len))) REPORT(run, prop, "ext_outside_buffer", "%s ext %d len %d", ctx, i, e.len);
      if (e.id < 3 || e.id > 127) REPORT(run, prop, "ext_id_out_of_range", "%s id %d", ctx, e.id);
      const opsim_ext &x = it[(size_t)i];
      if (x.id != e.id || x.frame != e.frame || x.len != e.len || x.data != e.data) REPORT(run, prop, "ext_iterator_vs_parse_disagree", "%s entry %d", ctx, i);
      h2[(size_t)e.frame]++;
      ExtM m; m.frame = e.frame; m.id = e.id; if (e.len > 0) m.payload.assign(e.data, e.data + e.len); out.push_back(m);
    }
    if (nf <= 48) for (int f = 0; f < nf; f++) if (h2[(size_t)f] != hist[(size_t)f]) REPORT(run, prop, "ext_count_ext_histogram_wrong", "%s frame %d: %d vs %d", ctx, f, hist[(size_t)f], h2[(size_t)f]);
    // frame-ordered parse
    if (nf <= 48) {
      std::vector<opsim_ext> fo((size_t)nb + 1); int nfo = nb;
      int r2 = opsim_ext_parse_ext(buf.p, len, fo.data(), &nfo, hist.data(), nf);
      if (r2 < 0 || nfo != nb) REPORT(run, prop, "ext_parse_ext_failed", "%s r=%d n=%d want %d", ctx, r2, nfo, nb);
      auto pf = per_frame(out, nf); int k = 0;
      for (int f = 0; f < nf; f++) for (auto &pe : pf[(size_t)f]) {
        const opsim_ext &e = fo[(size_t)k++];
        if (e.frame != f || e.id != pe.first || e.len != (int)pe.second.size() || (e.len && memcmp(e.data, pe.second.data(), (size_t)e.len)))
          REPORT(run, prop, "ext_parse_ext_order_wrong", "%s position %d", ctx, k - 1);
      }
    }
    // frame-limited iteration (what the DRED decoder uses): exactly the entries of the full parse that belong to frames below the
    // limit, in bitstream order; every limit 1..nf for small packets, three seeded limits otherwise
    {
      std::vector<int> lims;
      if (nf <= 6) for (int fm = 1; fm <= nf; fm++) lims.push_back(fm);
      else { uint64_t h = mix64((uint64_t)len * 131 + (uint64_t)nb, (uint64_t)nf); lims = {1 + (int)(h % (uint64_t)nf), 1 + (int)((h >> 20) % (uint64_t)nf), nf}; }
      std::vector<opsim_ext> lim((size_t)nb + 2);
      for (int fm : lims) {
        int nl = opsim_ext_iterate(buf.p, len, nf, fm, lim.data(), (int)lim.size());
        int want = 0; bool same = true;
        for (int i = 0; i < nb; i++) if (v[(size_t)i].frame < fm) {
          if (want < nl && want < (int)lim.size()) { const opsim_ext &x = lim[(size_t)want], &e = v[(size_t)i]; if (x.id != e.id || x.frame != e.frame || x.len != e.len || x.data != e.data) same = false; }
          want++;
        }
        run.count("ext_frame_limited_iterations");
        if (nl != want || !same) REPORT(run, prop, "ext_frame_limited_iterator_vs_parse_disagree", "%s frame_max %d of %d: iterator %d entries, parse has %d below the limit%s", ctx, fm, nf, nl, want, same ? "" : " (entries differ)");
      }
    }
    // find: the first entry with that id in bitstream order, for every id that occurs (at most 6) and one that does not
    {
      std::vector<int> ids; bool present[128] = {false};
      for (int i = 0; i < nb; i++) { int id = v[(size_t)i].id; if (id >= 0 && id < 128 && !present[id]) { present[id] = true; if (ids.size() < 6) ids.push_back(id); } }
      for (int id = 3; id < 128; id++) if (!present[id]) { ids.push_back(id); break; }
      for (int id : ids) {
        opsim_ext fe; memset(&fe, 0, sizeof fe);
        int fr = opsim_ext_find(buf.p, len, nf, id, &fe);
        int first = -1; for (int i = 0; i < nb && first < 0; i++) if (v[(size_t)i].id == id) first = i;
        run.count("ext_find_checked");
        if (first < 0) { if (fr != 0) REPORT(run, prop, "ext_find_wrong", "%s id %d absent, find returned %d", ctx, id, fr); }
        else { const opsim_ext &e = v[(size_t)first]; if (fr <= 0 || fe.id != e.id || fe.frame != e.frame || fe.len != e.len || fe.data != e.data) REPORT(run, prop, "ext_find_wrong", "%s id %d: find returned %d (frame %d len %d), first occurrence is entry %d (frame %d len %d)", ctx, id, fr, fe.frame, fe.len, first, e.frame, e.len); }
      }
    }
    ok = true;
    return out;
  }

  bool same_per_frame(const ExtList &a, const ExtList &b, int nf) { return per_frame(a, nf) == per_frame(b, nf); }

  // EXTRT nframes n seed paymax pattern : generate / parse round trip with capacity faults
  void op_extrt(const Op &op) {
    Rng g((uint64_t)op.arg(2, 1) * 0x9E3779B97F4A7C15ULL + 3);
    int nf = (int)(1 + (((op.arg(0) % 48) + 48) % 48)), n = (int)std::max<int64_t>(0, op.arg(1)), paymax = (int)std::max<int64_t>(0, op.arg(3));
    int pattern = (int)(((op.arg(4) % 4) + 4) % 4);
    ExtList L = gen_list(g, nf, n, paymax, pattern);
    auto lib = to_lib(L);
    int need = opsim_ext_generate(nullptr, 1 << 28, lib.data(), (int)lib.size(), nf, 0);
    run.ev((uint64_t)need);
    if (need < 0) REPORT(run, prop, strf("ext_generate_dryrun_failed_%d", need), "n=%zu nf=%d", L.size(), nf);
    {
      ExactBuf buf((size_t)need, 0xEE);
      int w = opsim_ext_generate(buf.p, need, lib.data(), (int)lib.size(), nf, 0);
      run.ev((uint64_t)w); run.evb(buf.p, (size_t)need);
      if (w != need) REPORT(run, prop, "ext_dryrun_size_differs", "dry %d written %d", need, w);
      if (!buf.tail_ok()) REPORT(run, prop, "ext_generate_wrote_outside", "exact");
      bool ok; ExtList P = parse_all(buf.p, need, nf, ok, "roundtrip");
      if (!ok && !L.empty()) REPORT(run, prop, "ext_generated_not_parseable", "n=%zu nf=%d len=%d", L.size(), nf, need);
      if (P.size() != L.size()) REPORT(run, prop, "ext_roundtrip_count", "in %zu out %zu", L.size(), P.size());
      if (!same_per_frame(L, P, nf)) REPORT(run, prop, "ext_roundtrip_differs", "n=%zu nf=%d pattern=%d len=%d", L.size(), nf, pattern, need);
      // parse -> generate -> parse fixed point
      auto lib2 = to_lib(P);
      int need2 = opsim_ext_generate(nullptr, 1 << 28, lib2.data(), (int)lib2.size(), nf, 0);
      if (need2 < 0) REPORT(run, prop, "ext_regenerate_failed", "%d", need2);
      ExactBuf b2((size_t)need2); opsim_ext_generate(b2.p, need2, lib2.data(), (int)lib2.size(), nf, 0);
      bool ok2; ExtList P2 = parse_all(b2.p, need2, nf, ok2, "fixedpoint");
      if (!same_per_frame(P, P2, nf)) REPORT(run, prop, "ext_fixed_point_broken", "n=%zu", P.size());
    }
    run.count("ext_roundtrip"); run.api_ok++;
    if (pattern == 1 || pattern == 2) run.count("ext_repeat_pattern");
    for (auto &e : L) if (e.payload.size() >= 255) { run.count("ext_lacing_ge255"); break; }
    run.sg(mix64(mix64(nf, L.size()), (uint64_t)pattern));
    // capacity faults: anything smaller is refused, nothing written outside
    if (need > 0) {
      int cuts[4] = {1, (int)(1 + g.range(0, need - 1)), need, 2};
      for (int c : cuts) {
        int cap = need - std::min(c, need);
        ExactBuf sb((size_t)cap, 0xEE);
        int w = opsim_ext_generate(sb.p, cap, lib.data(), (int)lib.size(), nf, 0);
        run.ev((uint64_t)w); run.count("ext_small_buffer"); run.fired = true;
        if (w != OPUS_BUFFER_TOO_SMALL) REPORT(run, prop, "ext_small_buffer_not_refused", "cap %d need %d ret %d", cap, need, w);
        if (!sb.tail_ok()) REPORT(run, prop, "ext_generate_wrote_outside", "cap %d", cap);
      }
    }
    // pad=1 into a larger buffer
    {
      int extra = (int)g.pick({1, 2, 5, 255, 300});
      ExactBuf pb((size_t)need + extra, 0xEE);
      int w = opsim_ext_generate(pb.p, need + extra, lib.data(), (int)lib.size(), nf, 1);
      if (w != need + extra) REPORT(run, prop, "ext_generate_pad_size", "ret %d want %d", w, need + extra);
      bool ok; ExtList P = parse_all(pb.p, need + extra, nf, ok, "padded");
      if (!ok || !same_per_frame(L, P, nf)) REPORT(run, prop, "ext_padded_roundtrip_differs", "n=%zu", L.size());
    }
  }

  // EXTBAD kind a b : generate with illegal arguments must be rejected
  void op_extbad(const Op &op) {
    int kind = (int)(((op.arg(0) % 5) + 5) % 5);
    unsigned char pay[4] = {1, 2, 3, 4};
    opsim_ext e{40, 0, pay, 2}; int nf = 2;
    switch (kind) {
      case 0: e.frame = nf + (int)(op.arg(1) % 3); break;
      case 1: e.id = (int)(op.arg(1) % 3); break;
      case 2: e.id = 128 + (int)(op.arg(1) % 100); break;
      case 3: e.id = 5; e.len = 2; break;
      case 4: nf = 49 + (int)(op.arg(1) % 10); break;
    }
    ExactBuf buf(64, 0xEE);
    int r = opsim_ext_generate(buf.p, 64, &e, 1, nf, 0);
    run.ev((uint64_t)r); run.fired = true; run.count("ext_bad_args");
    if (r >= 0) REPORT(run, prop, "ext_generate_accepted_illegal", "kind %d ret %d", kind, r);
  }

  // EXTFUZZ len seed nframes kind : arbitrary bytes through every parser entry point
  void op_extfuzz(const Op &op) {
    Rng g((uint64_t)op.arg(1, 1) * 0xD1342543DE82EF95ULL + 1);
    int nf = (int)(1 + (((op.arg(2) % 48) + 48) % 48)), kind = (int)(((op.arg(3) % 4) + 4) % 4);
    Bytes b;
    if (kind == 0) { b.resize((size_t)(op.arg(0) % 600)); for (auto &x : b) x = (unsigned char)g.next(); }
    else {
      ExtList L = gen_list(g, nf, (int)g.range(1, 12), 300, (int)g.range(0, 3)); auto lib = to_lib(L);
      int need = opsim_ext_generate(nullptr, 1 << 28, lib.data(), (int)lib.size(), nf, 0);
      if (need < 0) return;
      b.resize((size_t)need); opsim_ext_generate(b.data(), need, lib.data(), (int)lib.size(), nf, 0);
      if (kind == 1 && !b.empty()) { int k = (int)g.range(1, 4); for (int i = 0; i < k; i++) { size_t bit = (size_t)(g.next() % (b.size() * 8)); b[bit / 8] ^= (unsigned char)(1 << (bit % 8)); } }
      else if (kind == 2) b.resize((size_t)(g.next() % (b.size() + 1)));
      else if (!b.empty()) { b[(size_t)(g.next() % b.size())] = (unsigned char)g.pick({0, 1, 2, 3, 4, 5, 255, 254}); }
      if (g.chance(0.3)) nf = (int)g.range(1, 48);
    }
    bool ok; ExtList P = parse_all(b.data(), (int)b.size(), nf, ok, "fuzz");
    run.count("ext_fuzzed"); run.fired = true;
    if (ok) {
      auto lib2 = to_lib(P);
      int need2 = opsim_ext_generate(nullptr, 1 << 28, lib2.data(), (int)lib2.size(), nf, 0);
      if (need2 < 0) REPORT(run, prop, "ext_regenerate_failed", "%d (n=%zu nf=%d)", need2, P.size(), nf);
      ExactBuf b2((size_t)need2); opsim_ext_generate(b2.p, need2, lib2.data(), (int)lib2.size(), nf, 0);
      bool ok2; ExtList P2 = parse_all(b2.p, need2, nf, ok2, "fuzz-fixedpoint");
      if (!ok2 || !same_per_frame(P, P2, nf)) REPORT(run, prop, "ext_fixed_point_broken", "fuzz n=%zu", P.size());
      run.count("ext_fuzz_parsed"); run.api_ok++;
    }
    run.sg(mix64(kind, (uint64_t)ok));
  }

  // ---- carriage through the repacketizer
  void op_init(const Op &op) { int r = (int)(((op.arg(0) % NRP) + NRP) % NRP); opus_repacketizer_init(rp[r]); rm[r].clear(); }
  void op_cat(const Op &op) {
    int r = (int)(((op.arg(0) % NRP) + NRP) % NRP);
    const PoolPkt *pp = pick(op.arg(1)); if (!pp || !pp->valid) return;
    PoolPkt p = *pp; RpModel &m = rm[r];
    int ret = opus_repacketizer_cat(rp[r], p.data(), p.len);
    run.ev((uint64_t)ret);
    if (ret != OPUS_OK) return;
    if (m.frames.empty()) m.toc = p.f.toc;
    int first = (int)m.frames.size(), h = (int)held.size(); held.push_back(p);
    for (auto &f : p.frames) { m.frames.push_back(f); m.src.push_back(h); m.src_first.push_back(first); }
    m.hold.push_back(p.mem);
    run.count("cat_ok");
  }
  // OUTX r how b e nadd seed selfdelim pad
  void op_outx(const Op &op) {
    int r = (int)(((op.arg(0) % NRP) + NRP) % NRP); RpModel &m = rm[r];
    int nb = (int)m.frames.size(); if (nb == 0) return;
    int b = 0, e = nb;
    if (op.arg(1) & 1) { b = (int)(op.arg(2) % nb); e = b + 1 + (int)(op.arg(3) % (nb - b)); }
    int count = e - b;
    Rng g((uint64_t)op.arg(5, 1) * 77 + 1);
    // expected carried extensions
    ExtList expect; bool modelled = true; long padtot = 0;
    std::set<int> seen;
    bool split_inside = false;
    for (int i = 0; i < nb; i++) {
      int h = m.src[(size_t)i]; if (seen.count(h * 1000 + m.src_first[(size_t)i])) continue; seen.insert(h * 1000 + m.src_first[(size_t)i]);
      const PoolPkt &p = held[(size_t)h]; int s0 = m.src_first[(size_t)i], s1 = s0 + p.f.nframes;
      if (s1 <= b || s0 >= e) continue;
      if (s0 < b || s1 > e) split_inside = true;
      padtot += p.f.pad_len;
      if (p.pad_syntax == 1 && !p.has_ext_model) modelled = false;
      if (p.has_ext_model) for (auto &x : p.exts) { int abs = s0 + x.frame; if (abs >= b && abs < e) { ExtM y = x; y.frame = abs - b; expect.push_back(y); } }
    }
    ExtList added; int nadd = (int)(op.arg(4) % 4);
    if (nadd) added = gen_list(g, count, nadd, 40, 3);
    auto addlib = to_lib(added);
    int selfdelim = (int)(op.arg(6) & 1), pad = (int)(op.arg(7) & 1);
    long maxlen = 1277L * count + padtot + padtot / 100 + 400 + 2;
    ExactBuf ob((size_t)maxlen, 0xEE);
    int ret = opsim_rp_out_range_impl(rp[r], b, e, ob.p, (int)maxlen, selfdelim, pad, addlib.data(), (int)addlib.size());
    run.ev((uint64_t)ret);
    const char *sfx = split_inside ? "split_inside_packet" : "whole_packets";
    if (ret <= 0) { REPORT(run, prop, strf("rp_ext_out_failed_%d_%s", ret, sfx), "b=%d e=%d nb=%d nadd=%d", b, e, nb, nadd); return; }
    if (!ob.tail_ok() || ret > maxlen) REPORT(run, prop, "rp_ext_out_wrote_past_maxlen", "ret=%d", ret);
    if (pad && ret != maxlen) REPORT(run, prop, "rp_ext_out_pad_length", "ret=%d maxlen=%ld", ret, maxlen);
    Framed f = model_parse(ob.p, ret, selfdelim);
    if (!f.ok || f.nframes != count) REPORT(run, prop, "rp_ext_out_invalid", "ok=%d nframes=%d want %d", f.ok, f.nframes, count);
    for (int i = 0; i < count; i++) { const Bytes &w = m.frames[(size_t)(b + i)]; if (f.len[i] != (int)w.size() || (w.size() && memcmp(ob.p + f.off[i], w.data(), w.size()))) REPORT(run, prop, "rp_ext_out_frame_bytes_differ", "frame %d", i); }
    run.count("carriage_out"); run.api_ok++; if (split_inside) { run.count("carriage_split_inside"); run.fired = true; } if (nadd) run.count("carriage_added");
    run.sg(mix64(mix64(count, nadd), (uint64_t)split_inside * 2 + modelled));
    if (!modelled) return;
    bool ok; ExtList got = parse_all(ob.p + f.pad_off, f.pad_len, count, ok, "carriage");
    ExtList want = expect; want.insert(want.end(), added.begin(), added.end());
    if (!ok && !want.empty()) REPORT(run, prop, strf("rp_ext_padding_unparseable_%s", sfx), "want %zu", want.size());
    // each extension must sit on the output frame that holds its audio frame (per-frame multiset)
    auto norm = [&](const ExtList &l) { auto pf = per_frame(l, count); for (auto &v : pf) std::sort(v.begin(), v.end()); return pf; };
    if (norm(got) != norm(want)) REPORT(run, prop, strf("rp_ext_carriage_wrong_%s", sfx), "got %zu want %zu (b=%d e=%d nb=%d)", got.size(), want.size(), b, e, nb);
    if (!want.empty()) run.count("carriage_checked_nonempty");
  }

  void go(const Plan &p) {
    for (size_t i = 0; i < p.ops.size(); i++) {
      const Op &op = p.ops[i]; run.cur_op = (int)i;
      if (op.k == "EXTRT") op_extrt(op);
      else if (op.k == "EXTBAD") op_extbad(op);
      else if (op.k == "EXTFUZZ") op_extfuzz(op);
      else if (op.k == "POOLSYN") op_poolsyn(op);
      else if (op.k == "INIT") op_init(op);
      else if (op.k == "CAT") op_cat(op);
      else if (op.k == "OUTX") op_outx(op);
      if (run.verbose) printf("op %zu %s evhash=%016llx\n", i, op.k.c_str(), (unsigned long long)run.evhash);
    }
  }
};

Plan gen(uint64_t seed, int tier) {
  Rng r(seed);
  Plan p; p.hdr["scenario"] = "boxsim-ext";
  int nops = (int)(tier ? r.range(20, 80) : r.range(8, 30));
  int w_rt = r.pick({2, 5}), w_bad = r.pick({0, 1}), w_fuzz = r.pick({0, 3, 6}), w_syn = r.pick({2, 4}), w_cat = r.pick({3, 6}), w_out = r.pick({2, 5}), w_init = 1;
  int cfg = (int)r.range(0, 63);
  int bigpay = tier ? r.pick({300, 4000, 70000}) : r.pick({300, 1000, 4000});
  for (int i = 0; i < 3; i++) p.ops.push_back(mkop("POOLSYN", {cfg, r.chance(0.6) ? r.range(0, 3) : r.range(0, 47), -1, r.range(0, 1), r.weighted({2, 1, 0, 6}), r.range(0, 300), (int64_t)r.range(1, 1 << 30)}));
  for (int i = 0; i < nops; i++) {
    switch (r.weighted({w_rt, w_bad, w_fuzz, w_syn, w_cat, w_out, w_init})) {
      case 0: { int big = r.chance(tier ? 0.1 : 0.02); p.ops.push_back(mkop("EXTRT", {r.chance(0.5) ? r.range(0, 5) : r.range(0, 47), big ? (tier ? r.range(100, 9000) : r.range(50, 500)) : r.range(0, 40), (int64_t)r.range(1, 1 << 30), big ? 8 : bigpay, r.range(0, 3)})); break; }
      case 1: p.ops.push_back(mkop("EXTBAD", {r.range(0, 4), r.range(0, 100)})); break;
      case 2: p.ops.push_back(mkop("EXTFUZZ", {r.range(0, 599), (int64_t)r.range(1, 1 << 30), r.range(0, 47), r.range(0, 3)})); break;
      case 3: p.ops.push_back(mkop("POOLSYN", {cfg, r.chance(0.6) ? r.range(0, 3) : r.range(0, 47), -1, r.range(0, 1), r.weighted({2, 1, 0, 6}), r.range(0, 300), (int64_t)r.range(1, 1 << 30)})); break;
      case 4: p.ops.push_back(mkop("CAT", {r.weighted({6, 1, 1}), r.range(0, 95)})); break;
      case 5: p.ops.push_back(mkop("OUTX", {r.weighted({6, 1, 1}), r.range(0, 1), r.range(0, 47), r.range(0, 47), r.weighted({5, 2, 1, 1}), (int64_t)r.range(1, 1 << 30), r.chance(0.2), r.chance(0.2)})); break;
      case 6: p.ops.push_back(mkop("INIT", {r.weighted({6, 1, 1})})); break;
    }
  }
  return p;
}
void exec(const Plan &p, Run &run) { C16 b(run); b.go(p); }
}  // namespace
REGISTER_SCENARIO(C16, "boxsim-ext", gen, exec);
