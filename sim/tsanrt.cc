// Our own runtime behind clang's -fsanitize=thread instrumentation of libopus (memtrace variant), plus the
// threadsim baton scheduler. Tasks are real pthreads; exactly one holds the baton; every traced memory access
// of library code is a potential switch point; which task runs next is decided by the plan (TsPre list).
//
// Detector: tasks never synchronise with each other (one thread per object is the API contract), so any
// location written by one task and accessed by another without a happens-before edge is a data race, whatever
// order the simulator happened to run them in. Memory is classified per access:
//   * inside the running task's own arena / stack            -> owned, nothing to do
//   * inside ANOTHER task's arena / stack                    -> foreign object access (violation)
//   * in a read-only mapping (tables)                        -> harmless
//   * anything else (writable globals, TLS, libc heap)       -> shadow cell with vector-clock epochs (DJIT+)
// Happens-before edges exist only for pthread_mutex_*, pthread_once and __tsan_atomic* used BY LIBRARY CODE,
// so that a correctly synchronised lazy initialisation is not flagged.
#include "threadsim.h"
#include <pthread.h>
#include <semaphore.h>
#include <sys/mman.h>
#include <unistd.h>
#include <unordered_map>

namespace {

constexpr int NT = TS_MAX_TASKS;
constexpr size_t ARENA_SHIFT = 28;                 // 256 MB of address space per task (NORESERVE)
constexpr size_t ARENA = (size_t)1 << ARENA_SHIFT;
constexpr size_t STACK_SHIFT = 24;                 // 16 MB stacks
constexpr size_t STACK = (size_t)1 << STACK_SHIFT;

struct Task {
  int id = 0;
  pthread_t th;
  sem_t go;
  bool done = false, started = false;
  size_t bump = 0;
  long accesses = 0;
  uint32_t vc[NT];
  int lib_depth = 0;
  // distinct library functions entered (open addressing)
  std::vector<uintptr_t> fnset; size_t fncount = 0;
  std::function<void()> *body = nullptr;
};

struct Cell { uint32_t w_task1 = 0, w_epoch = 0; uint32_t r_epoch[NT] = {0}; uintptr_t w_pc = 0, r_pc[NT] = {0}; };
struct SyncObj { uint32_t vc[NT] = {0}; };

struct Sched {
  bool active = false;
  int ntasks = 0;
  Task tasks[NT];
  int cur = -1;
  const std::vector<TsPre> *pre = nullptr; size_t pre_idx = 0;
  long budget = -1;            // mode 0 countdown (accesses); -1 = none pending
  long fnbudget = -1;          // mode 1 countdown (new functions)
  long pre_target = 0;
  TsStats *st = nullptr;
  sem_t all_done;
  unsigned char *arena_base = nullptr, *stack_base = nullptr;
  std::vector<std::pair<uintptr_t, uintptr_t>> ro;     // read-only mappings
  std::unordered_map<uintptr_t, Cell> shadow;
  std::unordered_map<uintptr_t, SyncObj> syncs;
  std::unordered_map<uintptr_t, int> once_state;       // 1 = running, 2 = done
  std::unordered_map<uintptr_t, int> once_owner;
  uintptr_t exe_base = 0; std::string exe_path;
};
Sched G;
__thread Task *tls_task = nullptr;
__thread bool in_rt = false;      // re-entrancy guard: runtime code (hash maps) may itself call wrapped mem* functions
struct RtGuard { RtGuard() { in_rt = true; } ~RtGuard() { in_rt = false; } };

void load_maps() {
  G.ro.clear();
  FILE *f = fopen("/proc/self/maps", "r"); if (!f) return;
  char line[600]; bool first = true;
  char exe[512] = {0}; ssize_t n = readlink("/proc/self/exe", exe, sizeof exe - 1); if (n > 0) exe[n] = 0;
  G.exe_path = exe;
  while (fgets(line, sizeof line, f)) {
    unsigned long lo, hi; char perms[8] = {0};
    if (sscanf(line, "%lx-%lx %7s", &lo, &hi, perms) != 3) continue;
    if (first && strstr(line, exe)) { G.exe_base = lo; first = false; }
    if (perms[1] != 'w') G.ro.push_back({lo, hi});
  }
  fclose(f);
  std::sort(G.ro.begin(), G.ro.end());
}
inline bool in_ro(uintptr_t a) {
  size_t lo = 0, hi = G.ro.size();
  while (lo < hi) { size_t m = (lo + hi) / 2; if (a >= G.ro[m].second) lo = m + 1; else if (a < G.ro[m].first) hi = m; else return true; }
  return false;
}

std::string symbolize(uintptr_t pc, bool data) {
  char cmd[900], out[400] = {0};
  unsigned long off = (unsigned long)(pc - G.exe_base);
  snprintf(cmd, sizeof cmd, "llvm-symbolizer-14 --obj=%s %s0x%lx 2>/dev/null | head -1", G.exe_path.c_str(), data ? "\"DATA " : "\"", off);
  // close the quote
  std::string c = cmd; size_t p = c.find(" 2>/dev/null"); c.insert(p, "\"");
  FILE *f = popen(c.c_str(), "r");
  if (f) { if (!fgets(out, sizeof out, f)) out[0] = 0; pclose(f); }
  std::string s = out; while (!s.empty() && (s.back() == '\n' || s.back() == ' ')) s.pop_back();
  if (s.empty() || s == "??") s = strf("exe+0x%lx", off);
  for (auto &ch : s) if (ch == ' ') ch = '_';
  return s;
}

void add_conflict(const char *kind, uintptr_t addr, uintptr_t pc_a, int task_a, uintptr_t pc_b, int task_b, bool a_write, bool b_write) {
  if (!G.st || G.st->conflicts.size() >= 4) return;
  for (auto &c : G.st->conflicts) if (c.detail.find(strf("addr_off=0x%lx", (unsigned long)(addr - G.exe_base))) != std::string::npos) return;
  std::string fa = symbolize(pc_a, false), fb = pc_b ? symbolize(pc_b, false) : "?";
  std::string what;
  bool in_exe = !G.ro.empty() && addr >= G.exe_base && addr < G.exe_base + (1UL << 30);
  if (!strcmp(kind, "foreign")) what = "foreign_object_access_in_" + fa;
  else { std::string v = in_exe ? symbolize(addr, true) : std::string("heap_or_tls"); what = "data_race_on_" + v; }
  TsConflict c; c.cls = what;
  c.detail = strf("%s: task %d %s at %s vs task %d %s at %s addr_off=0x%lx", kind, task_a, a_write ? "write" : "read", fa.c_str(), task_b, b_write ? "write" : "read", fb.c_str(),
                  (unsigned long)(addr - G.exe_base));
  G.st->conflicts.push_back(c);
}

// ---- scheduler
void load_next_pre() {
  G.budget = -1; G.fnbudget = -1;
  while (G.pre && G.pre_idx < G.pre->size()) {
    const TsPre &p = (*G.pre)[G.pre_idx++];
    G.pre_target = p.target;
    if (p.mode == 0) { G.budget = p.val < 1 ? 1 : p.val; return; }
    if (p.mode == 1) { G.fnbudget = p.val < 1 ? 1 : p.val; G.budget = 300000; return; }   // falls back to an access budget so the queue never stalls
  }
}
int pick_other(long target) {
  int cand[NT], n = 0;
  for (int i = 0; i < G.ntasks; i++) if (i != G.cur && !G.tasks[i].done) cand[n++] = i;
  if (!n) return -1;
  return cand[(size_t)((target % n + n) % n)];
}
void switch_to(int next) {
  if (next < 0 || next == G.cur) return;
  Task *me = &G.tasks[G.cur];
  G.cur = next;
  if (G.st) G.st->switches++;
  sem_post(&G.tasks[next].go);
  sem_wait(&me->go);
}
void preempt_now() {
  long tgt = G.pre_target;
  if (G.st) G.st->pre_fired++;
  load_next_pre();
  switch_to(pick_other(tgt));
}

inline void hb_check(Task *t, uintptr_t a, bool w, uintptr_t pc) {
  Cell &c = G.shadow[a >> 3];
  if (c.w_task1 && (int)c.w_task1 - 1 != t->id && c.w_epoch > t->vc[c.w_task1 - 1])
    add_conflict("race", a, pc, t->id, c.w_pc, (int)c.w_task1 - 1, w, true);
  if (w) {
    for (int u = 0; u < G.ntasks; u++)
      if (u != t->id && c.r_epoch[u] > t->vc[u]) add_conflict("race", a, pc, t->id, c.r_pc[u], u, true, false);
    c.w_task1 = (uint32_t)t->id + 1; c.w_epoch = t->vc[t->id]; c.w_pc = pc;
  } else { c.r_epoch[t->id] = t->vc[t->id]; c.r_pc[t->id] = pc; }
}

inline void access(uintptr_t a, size_t n, bool w, uintptr_t pc) {
  Task *t = tls_task;
  if (!t || in_rt) return;
  RtGuard g_;
  t->accesses++;
  if (G.budget > 0 && --G.budget == 0) preempt_now();
  uintptr_t off = a - (uintptr_t)G.arena_base;
  if (off < (uintptr_t)NT * ARENA) { int o = (int)(off >> ARENA_SHIFT); if (o != t->id) add_conflict("foreign", a, pc, t->id, 0, o, w, false); return; }
  off = a - (uintptr_t)G.stack_base;
  if (off < (uintptr_t)NT * STACK) { int o = (int)(off >> STACK_SHIFT); if (o != t->id) add_conflict("foreign", a, pc, t->id, 0, o, w, false); return; }
  if (in_ro(a)) { if (G.st) G.st->rodata_reads++; return; }
  if (G.st) { if (w) G.st->nonowned_writable_writes++; else G.st->nonowned_writable_reads++; }
  for (uintptr_t g = a >> 3; g <= (a + (n ? n - 1 : 0)) >> 3; g++) hb_check(t, g << 3, w, pc);
}

void acquire(Task *t, uintptr_t obj) { auto it = G.syncs.find(obj); if (it == G.syncs.end()) return; for (int i = 0; i < NT; i++) if (it->second.vc[i] > t->vc[i]) t->vc[i] = it->second.vc[i]; }
void release(Task *t, uintptr_t obj) { SyncObj &s = G.syncs[obj]; for (int i = 0; i < NT; i++) if (t->vc[i] > s.vc[i]) s.vc[i] = t->vc[i]; t->vc[t->id]++; }

void *task_main(void *arg) {
  Task *t = (Task *)arg;
  tls_task = t;
  sem_wait(&t->go);
  t->started = true;
  (*t->body)();
  t->done = true;
  tls_task = nullptr;
  int next = -1;
  for (int k = 1; k <= G.ntasks; k++) { int i = (t->id + k) % G.ntasks; if (!G.tasks[i].done) { next = i; break; } }
  if (next >= 0) { G.cur = next; if (G.st) G.st->switches++; sem_post(&G.tasks[next].go); }
  else sem_post(&G.all_done);
  return nullptr;
}

}  // namespace

// ------------------------------------------------------------------ public API
int ts_current_task() { return tls_task ? tls_task->id : -1; }
void *ts_task_alloc(size_t n) {
  Task *t = tls_task; if (!t) return nullptr;
  size_t need = (n + 63) & ~(size_t)63; need += 64;
  if (t->bump + need > ARENA) { fprintf(stderr, "opsim: task arena exhausted\n"); _exit(3); }
  void *p = G.arena_base + (size_t)t->id * ARENA + t->bump; t->bump += need; return p;
}
bool ts_task_owns(const void *p) { uintptr_t off = (uintptr_t)p - (uintptr_t)G.arena_base; return G.arena_base && off < (uintptr_t)NT * ARENA; }

void ts_yield(long target) {
  Task *t = tls_task; if (!t) return;
  switch_to(pick_other(target));
}

void ts_run(std::vector<std::function<void()>> &bodies, const std::vector<TsPre> &pre, TsStats &st) {
  int n = (int)std::min<size_t>(bodies.size(), NT);
  if (!G.arena_base) {
    G.arena_base = (unsigned char *)mmap(nullptr, (size_t)NT * ARENA, PROT_READ | PROT_WRITE, MAP_PRIVATE | MAP_ANONYMOUS | MAP_NORESERVE, -1, 0);
    G.stack_base = (unsigned char *)mmap(nullptr, (size_t)NT * STACK, PROT_READ | PROT_WRITE, MAP_PRIVATE | MAP_ANONYMOUS | MAP_NORESERVE, -1, 0);
    if (G.arena_base == MAP_FAILED || G.stack_base == MAP_FAILED) { fprintf(stderr, "opsim: mmap failed\n"); _exit(3); }
  }
  load_maps();
  G.shadow.clear(); G.syncs.clear(); G.once_state.clear(); G.once_owner.clear();
  G.ntasks = n; G.st = &st; G.pre = &pre; G.pre_idx = 0; G.cur = 0;
  sem_init(&G.all_done, 0, 0);
  load_next_pre();
  for (int i = 0; i < n; i++) {
    Task &t = G.tasks[i];
    t.id = i; t.done = false; t.started = false; t.accesses = 0; t.lib_depth = 0;   // bump pointer keeps growing across ts_run calls (results of earlier phases stay valid)
    for (int k = 0; k < NT; k++) t.vc[k] = 0; t.vc[i] = 1;
    t.fnset.assign(4096, 0); t.fncount = 0; t.body = &bodies[i];
    sem_init(&t.go, 0, 0);
    if (!bodies[i]) { t.done = true; continue; }
    // pre-scribble the task's stack (stale residue is simulator-owned)
    memset(G.stack_base + (size_t)i * STACK + 4096, 0xE5 ^ i, 512 * 1024);
    pthread_attr_t at; pthread_attr_init(&at);
    pthread_attr_setstack(&at, G.stack_base + (size_t)i * STACK, STACK);
    if (pthread_create(&t.th, &at, task_main, &t)) { fprintf(stderr, "opsim: pthread_create failed\n"); _exit(3); }
    pthread_attr_destroy(&at);
  }
  G.active = true;
  int first = -1; for (int i = 0; i < n; i++) if (bodies[i]) { first = i; break; }
  if (first >= 0) { G.cur = first; sem_post(&G.tasks[first].go); sem_wait(&G.all_done); }
  for (int i = 0; i < n; i++) { if (bodies[i]) pthread_join(G.tasks[i].th, nullptr); sem_destroy(&G.tasks[i].go); }
  G.active = false;
  st.per_task_accesses.clear();
  for (int i = 0; i < n; i++) { st.per_task_accesses.push_back(G.tasks[i].accesses); st.accesses += G.tasks[i].accesses; st.func_first += (long)G.tasks[i].fncount; }
  G.st = nullptr; G.pre = nullptr;
}

// ------------------------------------------------------------------ instrumentation callbacks
#define PC ((uintptr_t)__builtin_return_address(0))
extern "C" {
void __tsan_init() {}
void __tsan_func_entry(void *) {
  Task *t = tls_task; if (!t || in_rt) return;
  RtGuard g_;
  t->lib_depth++;
  uintptr_t pc = PC;
  size_t mask = t->fnset.size() - 1, h = (size_t)((pc * 0x9E3779B97F4A7C15ULL) >> 20) & mask;
  while (t->fnset[h] && t->fnset[h] != pc) h = (h + 1) & mask;
  if (!t->fnset[h]) {
    if (t->fncount * 2 < t->fnset.size()) { t->fnset[h] = pc; t->fncount++; }
    if (G.fnbudget > 0 && --G.fnbudget == 0) preempt_now();
  }
}
void __tsan_func_exit() { Task *t = tls_task; if (t && !in_rt && t->lib_depth > 0) t->lib_depth--; }
#define RW(N) \
  void __tsan_read##N(void *a) { access((uintptr_t)a, N, false, PC); } \
  void __tsan_write##N(void *a) { access((uintptr_t)a, N, true, PC); } \
  void __tsan_unaligned_read##N(void *a) { access((uintptr_t)a, N, false, PC); } \
  void __tsan_unaligned_write##N(void *a) { access((uintptr_t)a, N, true, PC); }
RW(1) RW(2) RW(4) RW(8) RW(16)
void __tsan_read_range(void *a, unsigned long n) { access((uintptr_t)a, n, false, PC); }
void __tsan_write_range(void *a, unsigned long n) { access((uintptr_t)a, n, true, PC); }
void __tsan_vptr_update(void **, void *) {}
void __tsan_vptr_read(void **) {}

void *__real_memcpy(void *, const void *, size_t);
void *__real_memmove(void *, const void *, size_t);
void *__real_memset(void *, int, size_t);
void *__wrap_memcpy(void *d, const void *s, size_t n) {
  if (tls_task && tls_task->lib_depth > 0 && n) { access((uintptr_t)s, n, false, PC); access((uintptr_t)d, n, true, PC); }
  return __real_memcpy(d, s, n);
}
void *__wrap_memmove(void *d, const void *s, size_t n) {
  if (tls_task && tls_task->lib_depth > 0 && n) { access((uintptr_t)s, n, false, PC); access((uintptr_t)d, n, true, PC); }
  return __real_memmove(d, s, n);
}
void *__wrap_memset(void *d, int c, size_t n) {
  if (tls_task && tls_task->lib_depth > 0 && n) access((uintptr_t)d, n, true, PC);
  return __real_memset(d, c, n);
}

// ---- synchronisation used by library code creates happens-before edges
int __real_pthread_mutex_lock(pthread_mutex_t *);
int __real_pthread_mutex_unlock(pthread_mutex_t *);
int __real_pthread_once(pthread_once_t *, void (*)(void));
int __wrap_pthread_mutex_lock(pthread_mutex_t *m) {
  Task *t = tls_task;
  if (!t || in_rt || t->lib_depth <= 0) return __real_pthread_mutex_lock(m);
  int spins = 0;
  while (pthread_mutex_trylock(m) != 0) { switch_to(pick_other(spins++)); if (spins > 100000) { fprintf(stderr, "opsim: mutex livelock\n"); _exit(78); } }
  RtGuard g_;
  if (G.st) G.st->sync_ops++;
  acquire(t, (uintptr_t)m);
  return 0;
}
int __wrap_pthread_mutex_unlock(pthread_mutex_t *m) {
  Task *t = tls_task;
  if (t && !in_rt && t->lib_depth > 0) { RtGuard g_; release(t, (uintptr_t)m); if (G.st) G.st->sync_ops++; }
  return __real_pthread_mutex_unlock(m);
}
int __wrap_pthread_once(pthread_once_t *o, void (*fn)(void)) {
  Task *t = tls_task;
  if (!t || in_rt || t->lib_depth <= 0) return __real_pthread_once(o, fn);
  uintptr_t k = (uintptr_t)o; int spins = 0;
  for (;;) {
    int s;
    {
      RtGuard g_;   // runtime containers must never be preempted half-way (their mem* calls are wrapped too)
      if (G.st && spins == 0) G.st->sync_ops++;
      s = G.once_state[k];
      if (s == 2) { acquire(t, k); return 0; }
      if (s == 0) { G.once_state[k] = 1; G.once_owner[k] = t->id; }
      else if (G.once_owner[k] == t->id) return 0;   // recursive call from the init routine
    }
    if (s == 0) { fn(); RtGuard g_; release(t, k); G.once_state[k] = 2; return 0; }
    switch_to(pick_other(spins++)); if (spins > 100000) { fprintf(stderr, "opsim: once livelock\n"); _exit(78); }
  }
}

// atomics: performed for real, counted as switch points, acquire+release edge on the address (conservative: fewer reports)
#define ATOMIC_PRE(a) Task *t_ = (tls_task && !in_rt) ? tls_task : nullptr; if (t_) { RtGuard g_; t_->accesses++; if (G.budget > 0 && --G.budget == 0) preempt_now(); acquire(t_, (uintptr_t)(a)); if (G.st) G.st->sync_ops++; }
#define ATOMIC_POST(a) if (t_) { RtGuard g_; release(t_, (uintptr_t)(a)); }
#define ATOMICS(N, T) \
  T __tsan_atomic##N##_load(const volatile T *a, int) { ATOMIC_PRE(a) T v = __atomic_load_n(a, __ATOMIC_SEQ_CST); ATOMIC_POST(a) return v; } \
  void __tsan_atomic##N##_store(volatile T *a, T v, int) { ATOMIC_PRE(a) __atomic_store_n(a, v, __ATOMIC_SEQ_CST); ATOMIC_POST(a) } \
  T __tsan_atomic##N##_exchange(volatile T *a, T v, int) { ATOMIC_PRE(a) T r = __atomic_exchange_n(a, v, __ATOMIC_SEQ_CST); ATOMIC_POST(a) return r; } \
  T __tsan_atomic##N##_fetch_add(volatile T *a, T v, int) { ATOMIC_PRE(a) T r = __atomic_fetch_add(a, v, __ATOMIC_SEQ_CST); ATOMIC_POST(a) return r; } \
  T __tsan_atomic##N##_fetch_sub(volatile T *a, T v, int) { ATOMIC_PRE(a) T r = __atomic_fetch_sub(a, v, __ATOMIC_SEQ_CST); ATOMIC_POST(a) return r; } \
  T __tsan_atomic##N##_fetch_and(volatile T *a, T v, int) { ATOMIC_PRE(a) T r = __atomic_fetch_and(a, v, __ATOMIC_SEQ_CST); ATOMIC_POST(a) return r; } \
  T __tsan_atomic##N##_fetch_or(volatile T *a, T v, int) { ATOMIC_PRE(a) T r = __atomic_fetch_or(a, v, __ATOMIC_SEQ_CST); ATOMIC_POST(a) return r; } \
  T __tsan_atomic##N##_fetch_xor(volatile T *a, T v, int) { ATOMIC_PRE(a) T r = __atomic_fetch_xor(a, v, __ATOMIC_SEQ_CST); ATOMIC_POST(a) return r; } \
  T __tsan_atomic##N##_fetch_nand(volatile T *a, T v, int) { ATOMIC_PRE(a) T r = __atomic_fetch_nand(a, v, __ATOMIC_SEQ_CST); ATOMIC_POST(a) return r; } \
  int __tsan_atomic##N##_compare_exchange_strong(volatile T *a, T *c, T v, int, int) { ATOMIC_PRE(a) int r = __atomic_compare_exchange_n(a, c, v, 0, __ATOMIC_SEQ_CST, __ATOMIC_SEQ_CST); ATOMIC_POST(a) return r; } \
  int __tsan_atomic##N##_compare_exchange_weak(volatile T *a, T *c, T v, int, int) { ATOMIC_PRE(a) int r = __atomic_compare_exchange_n(a, c, v, 0, __ATOMIC_SEQ_CST, __ATOMIC_SEQ_CST); ATOMIC_POST(a) return r; } \
  T __tsan_atomic##N##_compare_exchange_val(volatile T *a, T c, T v, int, int) { ATOMIC_PRE(a) __atomic_compare_exchange_n(a, &c, v, 0, __ATOMIC_SEQ_CST, __ATOMIC_SEQ_CST); ATOMIC_POST(a) return c; }
ATOMICS(8, unsigned char) ATOMICS(16, unsigned short) ATOMICS(32, unsigned int) ATOMICS(64, unsigned long long)
void __tsan_atomic_thread_fence(int) { __atomic_thread_fence(__ATOMIC_SEQ_CST); }
void __tsan_atomic_signal_fence(int) {}
}
