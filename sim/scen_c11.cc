// C11 — settings are validated, read back, and honoured in the bitstream (netsim `ctl` + allocsim).
// The control plane issues every documented request with in-range, boundary and out-of-range values, NULL out-pointers and
// unknown request numbers on encoder / decoder / multistream / projection objects between encode calls; creators are
// driven with unsupported arguments and with the k-th allocation failing (every k until creation succeeds untouched).
#include "session.h"

namespace {

enum Kind11 { E_SINGLE = 0, E_MS, E_PROJ, D_SINGLE, D_MS, D_PROJ, NKIND11 };
static bool is_enc11(int k) { return k <= E_PROJ; }

struct Req { int set, get; int lo, hi; bool allow_auto; bool rb; };
// requests with a plain integer domain [lo, hi] (+ OPUS_AUTO); rb = the getter must read the value back at once
static const Req kEncReqs[] = {
  {OPUS_SET_MAX_BANDWIDTH_REQUEST, OPUS_GET_MAX_BANDWIDTH_REQUEST, 1101, 1105, false, true},
  {OPUS_SET_VBR_REQUEST, OPUS_GET_VBR_REQUEST, 0, 1, false, true},
  {OPUS_SET_BANDWIDTH_REQUEST, OPUS_GET_BANDWIDTH_REQUEST, 1101, 1105, true, false},    // getter reports the bandwidth in use
  {OPUS_SET_COMPLEXITY_REQUEST, OPUS_GET_COMPLEXITY_REQUEST, 0, 10, false, true},
  {OPUS_SET_INBAND_FEC_REQUEST, OPUS_GET_INBAND_FEC_REQUEST, 0, 2, false, true},
  {OPUS_SET_PACKET_LOSS_PERC_REQUEST, OPUS_GET_PACKET_LOSS_PERC_REQUEST, 0, 100, false, true},
  {OPUS_SET_DTX_REQUEST, OPUS_GET_DTX_REQUEST, 0, 1, false, true},
  {OPUS_SET_VBR_CONSTRAINT_REQUEST, OPUS_GET_VBR_CONSTRAINT_REQUEST, 0, 1, false, true},
  {OPUS_SET_FORCE_CHANNELS_REQUEST, OPUS_GET_FORCE_CHANNELS_REQUEST, 1, 2, true, true},   // hi = channels (patched per object)
  {OPUS_SET_SIGNAL_REQUEST, OPUS_GET_SIGNAL_REQUEST, 3001, 3002, true, true},
  {OPUS_SET_LSB_DEPTH_REQUEST, OPUS_GET_LSB_DEPTH_REQUEST, 8, 24, false, true},
  {OPUS_SET_EXPERT_FRAME_DURATION_REQUEST, OPUS_GET_EXPERT_FRAME_DURATION_REQUEST, 5000, 5009, false, true},
  {OPUS_SET_PREDICTION_DISABLED_REQUEST, OPUS_GET_PREDICTION_DISABLED_REQUEST, 0, 1, false, true},
  {OPUS_SET_PHASE_INVERSION_DISABLED_REQUEST, OPUS_GET_PHASE_INVERSION_DISABLED_REQUEST, 0, 1, false, true},
};
static const Req kDecReqs[] = {
  {OPUS_SET_GAIN_REQUEST, OPUS_GET_GAIN_REQUEST, -32768, 32767, false, true},
  {OPUS_SET_COMPLEXITY_REQUEST, OPUS_GET_COMPLEXITY_REQUEST, 0, 10, false, true},          // single-stream decoder only
  {OPUS_SET_PHASE_INVERSION_DISABLED_REQUEST, OPUS_GET_PHASE_INVERSION_DISABLED_REQUEST, 0, 1, false, true},
};
static const int kUnknown[] = {0, 1, 3999, 4018, 4019, 4026, 4030, 4032, 4035, 4038, 4044, 4048, 4100, 5000, 7000, 20000, -1, 0x7fffffff};
static const int kEncGetters[] = {4001, 4003, 4005, 4007, 4009, 4011, 4013, 4015, 4017, 4021, 4023, 4025, 4027, 4029, 4037, 4041, 4043, 4047, 4049};
static const int kMsEncGetters[] = {4001, 4003, 4007, 4009, 4011, 4013, 4015, 4017, 4021, 4023, 4025, 4027, 4029, 4037, 4041, 4043, 4047};
static const int kDecGetters[] = {4009, 4011, 4029, 4033, 4045, 4039, 4047};
static const int kMsDecGetters[] = {4009, 4029, 4045, 4039, 4047};
static const int kDecOnlyOnEnc[] = {OPUS_SET_GAIN_REQUEST, OPUS_GET_GAIN_REQUEST, OPUS_GET_PITCH_REQUEST, OPUS_GET_LAST_PACKET_DURATION_REQUEST};
static const int kEncOnlyOnDec[] = {4000, 4001, 4002, 4003, 4004, 4005, 4006, 4007, 4008, 4012, 4013, 4014, 4015, 4016, 4017, 4020, 4021, 4022, 4023, 4024, 4025, 4027, 4036, 4037, 4040, 4041, 4042, 4043, 4049};

struct Ctl11 {
  Run &run; const char *prop = "C11";
  int kind = E_SINGLE;
  EncNode enc; DecNode dec; Layout L;
  Source src; int64_t pos = 0;
  // model of the settings the honouring oracle needs (validated against the getters on every accepted call)
  int m_app = OPUS_APPLICATION_AUDIO, m_force_ch = OPUS_AUTO, m_maxbw = 1105, m_userbw = OPUS_AUTO, m_expert = 5000, m_dtx = 0;
  long frames = 0;                       // packets encoded so far
  bool bw_settings_before_first = true;  // bandwidth settings unchanged since before the first frame
  bool fc_before_first = true; long fc_changed_at = -1, fc_coded_since = 0;
  int last_frame = 0;                    // last submitted frame size (samples)
  int m_bitrate = OPUS_AUTO;
  std::vector<int> m_first;   // per stream: 1 nothing coded yet, 0 a frame has certainly been coded, -1 only TOC-only / <=1-byte frames so far (the low-budget path codes nothing)
  void first_reset() { m_first.assign((size_t)std::max(1, L.streams), 1); }
  void first_note(int s, const Framed &f) { if ((size_t)s >= m_first.size()) return; bool coded = false; for (int i = 0; i < f.nframes; i++) if (f.len[i] >= 2) coded = true; if (coded) m_first[(size_t)s] = 0; else if (m_first[(size_t)s] == 1) m_first[(size_t)s] = -1; }
  explicit Ctl11(Run &r) : run(r) {}

  bool alive() const { return is_enc11(kind) ? enc.alive() : dec.alive(); }
  int set(int req, int v) { return is_enc11(kind) ? enc.set(req, v) : dec.set(req, v); }
  int get(int req, opus_int32 *v) { return is_enc11(kind) ? enc.get(req, v) : dec.get(req, v); }
  int getnull(int req) {
    opus_int32 *np = nullptr;
    if (kind == E_SINGLE) return opus_encoder_ctl(enc.e, req, np);
    if (kind == E_MS) return opus_multistream_encoder_ctl(enc.ms, req, np);
    if (kind == E_PROJ) return opus_projection_encoder_ctl(enc.pj, req, np);
    if (kind == D_SINGLE) return opus_decoder_ctl(dec.d, req, np);
    if (kind == D_MS) return opus_multistream_decoder_ctl(dec.ms, req, np);
    return opus_projection_decoder_ctl(dec.pj, req, np);
  }
  std::vector<int> getters() const {
    std::vector<int> g;
    if (kind == E_SINGLE) g.assign(std::begin(kEncGetters), std::end(kEncGetters));
    else if (kind == E_MS || kind == E_PROJ) g.assign(std::begin(kMsEncGetters), std::end(kMsEncGetters));
    else if (kind == D_SINGLE) g.assign(std::begin(kDecGetters), std::end(kDecGetters));
    else g.assign(std::begin(kMsDecGetters), std::end(kMsDecGetters));
    return g;
  }
  std::vector<opus_int32> snapshot() {
    std::vector<opus_int32> s;
    for (int g : getters()) { opus_int32 v = 0x5EED; int r = get(g, &v); s.push_back(r); s.push_back(v); }
    return s;
  }
  void expect_unchanged(const std::vector<opus_int32> &before, const char *what, int req, int val) {
    std::vector<opus_int32> after = snapshot();
    if (after != before) {
      auto g = getters(); size_t k = 0; for (; k < before.size() && before[k] == after[k]; k++) {}
      REPORT(run, prop, strf("rejected_request_changed_settings_%s", kindname()), "%s request %d value %d: getter %d was %d now %d", what, req, val, g[k / 2], before[k], after[k]);
    }
  }
  const char *kindname() const { static const char *n[] = {"enc", "msenc", "projenc", "dec", "msdec", "projdec"}; return n[kind]; }

  // NEW kind fsidx ch app family layseed rseed
  void op_new(const Op &op) {
    kind = (int)(((op.arg(0) % NKIND11) + NKIND11) % NKIND11);
    Layout l; l.fs = kRates[((op.arg(1) % 5) + 5) % 5]; l.app = kApps[((op.arg(3) % 3) + 3) % 3];
    int ch = (int)std::max<int64_t>(1, op.arg(2, 1));
    int ek = kind % 3;
    if (ek == 0) { l.kind = K_SINGLE; l.ch = ch > 2 ? 2 : ch; }
    else if (ek == 1) { l.kind = K_SURROUND; l.family = (int)op.arg(4); l.ch = ch; }
    else { l.kind = K_PROJ; l.family = 3; l.ch = ch; }
    int err = enc.create(l, (uint64_t)op.arg(6, 1), -1);
    run.ev((uint64_t)err);
    if (err != OPUS_OK) { enc.destroy(); return; }
    L = enc.L;
    if (!is_enc11(kind)) {
      int dfs = kRates[((op.arg(5) % 5) + 5) % 5];
      err = dec.create_for(enc, dfs, (int)(1 + (op.arg(5) / 5) % 2), -1);
      if (err != OPUS_OK) { dec.destroy(); return; }
    }
    m_app = l.app; m_force_ch = OPUS_AUTO; m_maxbw = 1105; m_userbw = OPUS_AUTO; m_expert = 5000; m_dtx = 0; frames = 0; m_bitrate = OPUS_AUTO;
    bw_settings_before_first = true; fc_before_first = true; fc_changed_at = -1; pos = 0; last_frame = 0; first_reset();
  }

  // CTL table_index value_code raw : one request from the kind's table with a value from the grid
  void op_ctl(const Op &op) {
    if (!alive()) return;
    bool e = is_enc11(kind);
    const Req *tab = e ? kEncReqs : kDecReqs; int ntab = e ? (int)(sizeof kEncReqs / sizeof kEncReqs[0]) : (int)(sizeof kDecReqs / sizeof kDecReqs[0]);
    Req rq = tab[(size_t)(((op.arg(0) % ntab) + ntab) % ntab)];
    if (rq.set == OPUS_SET_FORCE_CHANNELS_REQUEST) rq.hi = kind == E_SINGLE ? L.ch : 2;
    int64_t grid[] = {(int64_t)rq.lo - 1, rq.lo, (int64_t)rq.lo + 1, ((int64_t)rq.lo + rq.hi) / 2, (int64_t)rq.hi - 1, rq.hi, (int64_t)rq.hi + 1, OPUS_AUTO, OPUS_BITRATE_MAX, INT32_MIN, INT32_MAX, 0, (int64_t)rq.lo - 1000, (int64_t)rq.hi + 1000, op.arg(2)};
    int64_t v64 = grid[(size_t)(((op.arg(1) % 15) + 15) % 15)];
    if (v64 < INT32_MIN) v64 = INT32_MIN; if (v64 > INT32_MAX) v64 = INT32_MAX;
    int val = (int)v64;
    bool legal = (val >= rq.lo && val <= rq.hi) || (rq.allow_auto && val == OPUS_AUTO);
    bool supported = true;
    if (kind == D_MS || kind == D_PROJ) supported = rq.set != OPUS_SET_COMPLEXITY_REQUEST;
    if ((kind == E_MS || kind == E_PROJ) && rq.set == OPUS_SET_FORCE_CHANNELS_REQUEST && val == 2) legal = L.coupled == L.streams;   // a mono stream cannot be forced to stereo
    std::vector<opus_int32> before = snapshot();
    int r = set(rq.set, val);
    run.ev((uint64_t)r); run.sg(mix64((uint64_t)rq.set, (uint64_t)(r + 10)));
    if (!supported) {
      if (r != OPUS_UNIMPLEMENTED) REPORT(run, prop, strf("unsupported_request_not_unimplemented_%s", kindname()), "request %d value %d returned %d", rq.set, val, r);
      expect_unchanged(before, "unsupported", rq.set, val); run.count("ctl_unsupported"); run.fired = true; return;
    }
    if (!legal) {
      run.count("ctl_illegal"); run.fired = true;
      if (r != OPUS_BAD_ARG) REPORT(run, prop, strf("illegal_value_accepted_%s_%d", kindname(), rq.set), "request %d value %d returned %d", rq.set, val, r);
      expect_unchanged(before, "illegal", rq.set, val);
      return;
    }
    run.count("ctl_legal");
    if (r != OPUS_OK) REPORT(run, prop, strf("legal_value_rejected_%s_%d", kindname(), rq.set), "request %d value %d returned %d", rq.set, val, r);
    if (rq.rb && !((kind == E_MS || kind == E_PROJ) && rq.get == OPUS_GET_MAX_BANDWIDTH_REQUEST)) {
      opus_int32 got = 0x5EED; int gr = get(rq.get, &got);
      if (gr != OPUS_OK || got != val) REPORT(run, prop, strf("getter_does_not_read_back_%s_%d", kindname(), rq.get), "set %d to %d, getter returned %d value %d", rq.set, val, gr, got);
      run.count("readback_checked");
    }
    // every OTHER getter must be unchanged (a setter touches one setting)
    {
      std::vector<opus_int32> after = snapshot(); auto g = getters();
      for (size_t k = 0; k < g.size(); k++) {
        if (g[k] == rq.get || g[k] == OPUS_GET_IN_DTX_REQUEST) continue;   // in-DTX is derived from state and the DTX switch
        if (rq.set == OPUS_SET_BANDWIDTH_REQUEST || rq.set == OPUS_SET_MAX_BANDWIDTH_REQUEST) { if (g[k] == OPUS_GET_BANDWIDTH_REQUEST) continue; }
        if (before[2 * k] != after[2 * k] || before[2 * k + 1] != after[2 * k + 1])
          REPORT(run, prop, strf("setter_changed_other_setting_%s", kindname()), "set %d to %d changed getter %d from %d to %d", rq.set, val, g[k], before[2 * k + 1], after[2 * k + 1]);
      }
    }
    if (frames > 0) run.fired = true;
    switch (rq.set) {
      case OPUS_SET_FORCE_CHANNELS_REQUEST: if (val != m_force_ch) { m_force_ch = val; if (frames > 0) { fc_before_first = false; fc_changed_at = frames; fc_coded_since = 0; } } break;
      case OPUS_SET_MAX_BANDWIDTH_REQUEST: if (val != m_maxbw) { m_maxbw = val; if (frames > 0) bw_settings_before_first = false; } break;
      case OPUS_SET_BANDWIDTH_REQUEST: if (val != m_userbw) { m_userbw = val; if (frames > 0) bw_settings_before_first = false; } break;
      case OPUS_SET_EXPERT_FRAME_DURATION_REQUEST: m_expert = val; break;
      case OPUS_SET_DTX_REQUEST: m_dtx = val; break;
    }
  }

  // APP value_code : OPUS_SET_APPLICATION (legal before the first frame; afterwards only the current value)
  void op_app(const Op &op) {
    if (!alive() || !is_enc11(kind)) return;
    int cand[] = {2048, 2049, 2051, 2047, 2050, 2052, 0, -1000, INT32_MAX};
    int val = cand[(size_t)(((op.arg(0) % 9) + 9) % 9)];
    bool valid = val == 2048 || val == 2049 || val == 2051;
    // documented: only before the first frame (a reset re-opens the window). Streams are asked in order, so stream 0 decides a rejection.
    bool all_fresh = true; for (int x : m_first) if (x != 1) all_fresh = false;
    bool legal = valid && (val == m_app || all_fresh);
    if (valid && val != m_app && !all_fresh && m_first[0] != 0) {
      std::vector<opus_int32> b0 = snapshot();
      int r0 = set(OPUS_SET_APPLICATION_REQUEST, val); run.ev((uint64_t)r0); run.count("app_indeterminate");
      if (r0 == OPUS_OK) m_app = val; else expect_unchanged(b0, "illegal", OPUS_SET_APPLICATION_REQUEST, val);
      return;
    }
    std::vector<opus_int32> before = snapshot();
    int r = set(OPUS_SET_APPLICATION_REQUEST, val);
    run.ev((uint64_t)r);
    if (legal) {
      if (r != OPUS_OK) REPORT(run, prop, strf("legal_value_rejected_%s_4000", kindname()), "application %d returned %d (frames %ld)", val, r, frames);
      opus_int32 got = 0; get(OPUS_GET_APPLICATION_REQUEST, &got);
      if (got != val) REPORT(run, prop, strf("getter_does_not_read_back_%s_4001", kindname()), "set application %d, got %d", val, got);
      m_app = val; run.count("ctl_legal");
    } else {
      if (r != OPUS_BAD_ARG) REPORT(run, prop, strf("illegal_value_accepted_%s_4000", kindname()), "application %d returned %d (frames %ld, current %d)", val, r, frames, m_app);
      expect_unchanged(before, "illegal", OPUS_SET_APPLICATION_REQUEST, val); run.count("ctl_illegal"); run.fired = true;
    }
  }

  // BITRATE value_code raw
  void op_bitrate(const Op &op) {
    if (!alive() || !is_enc11(kind)) return;
    int nch = L.ch;
    int64_t cand[] = {OPUS_AUTO, OPUS_BITRATE_MAX, 0, -2, 1, 499, 500, 501, 6000, 64000, 300000LL * nch - 1, 300000LL * nch, 300000LL * nch + 1, INT32_MAX, INT32_MIN, op.arg(1)};
    int64_t v64 = cand[(size_t)(((op.arg(0) % 16) + 16) % 16)];
    if (v64 < INT32_MIN) v64 = INT32_MIN; if (v64 > INT32_MAX) v64 = INT32_MAX;
    int val = (int)v64;
    bool legal = val == OPUS_AUTO || val == OPUS_BITRATE_MAX || val > 0;
    std::vector<opus_int32> before = snapshot();
    int r = set(OPUS_SET_BITRATE_REQUEST, val);
    run.ev((uint64_t)r);
    if (!legal) {
      if (r != OPUS_BAD_ARG) REPORT(run, prop, strf("illegal_value_accepted_%s_4002", kindname()), "bitrate %d returned %d", val, r);
      expect_unchanged(before, "illegal", OPUS_SET_BITRATE_REQUEST, val); run.count("ctl_illegal"); run.fired = true; return;
    }
    if (r != OPUS_OK) REPORT(run, prop, strf("legal_value_rejected_%s_4002", kindname()), "bitrate %d returned %d", val, r);
    run.count("ctl_legal");
    m_bitrate = val;
    if (kind == E_SINGLE) {
      // documented clamp and AUTO / MAX resolution (the frame size entering the resolution is that of the last coded frame,
      // which for a repacketised long packet is one of its sub-frames: any duration not longer than the last submitted one)
      opus_int32 got = 0; get(OPUS_GET_BITRATE_REQUEST, &got);
      bool ok = false;
      if (val > 0) { int64_t want = val <= 500 ? 500 : std::min<int64_t>(val, 300000LL * nch); ok = got == want; }
      else {
        int fs = L.fs;
        for (int fi = 0; fi < 9 && !ok; fi++) {
          int f = (int)((int64_t)kFrames48[fi] * fs / 48000);
          if (last_frame == 0 && fi != 0) continue;   // before any frame: 2.5 ms; afterwards the size of the most recent CODED (sub-)frame, which TOC-only packets do not update
          int64_t want = val == OPUS_AUTO ? 60LL * fs / f + (int64_t)fs * nch : 1276LL * 8 * fs / f;
          if (got == want) ok = true;
        }
      }
      if (!ok) REPORT(run, prop, "getter_does_not_read_back_enc_4003", "set bitrate %d, getter returned %d (channels %d fs %d last frame %d)", val, got, nch, L.fs, last_frame);
      run.count("readback_checked");
    }
  }

  // MISC which arg : NULL getters, unknown requests, requests of the other object family
  void op_misc(const Op &op) {
    if (!alive()) return;
    int which = (int)(((op.arg(0) % 4) + 4) % 4);
    std::vector<opus_int32> before = snapshot();
    if (which == 0) {
      auto g = getters(); int req = g[(size_t)(((op.arg(1) % (int64_t)g.size()) + g.size()) % g.size())];
      int r = getnull(req); run.ev((uint64_t)r);
      if (r != OPUS_BAD_ARG) REPORT(run, prop, strf("null_getter_not_bad_arg_%s", kindname()), "getter %d with NULL returned %d", req, r);
      run.count("ctl_null");
    } else if (which == 1) {
      int n = (int)(sizeof kUnknown / sizeof kUnknown[0]); int req = kUnknown[(size_t)(((op.arg(1) % n) + n) % n)];
      int r = set(req, (int)op.arg(2)); run.ev((uint64_t)r);
      if (r != OPUS_UNIMPLEMENTED) REPORT(run, prop, strf("unknown_request_not_unimplemented_%s", kindname()), "request %d returned %d", req, r);
      run.count("ctl_unknown");
    } else if (which == 2) {
      opus_int32 dummy = 0; int r;
      if (is_enc11(kind)) { int n = 4; int req = kDecOnlyOnEnc[(size_t)(((op.arg(1) % n) + n) % n)]; r = (req == OPUS_SET_GAIN_REQUEST) ? set(req, 100) : get(req, &dummy);
        if (r != OPUS_UNIMPLEMENTED) REPORT(run, prop, strf("foreign_request_not_unimplemented_%s", kindname()), "decoder request %d on an encoder returned %d", req, r); }
      else { int n = (int)(sizeof kEncOnlyOnDec / sizeof kEncOnlyOnDec[0]); int req = kEncOnlyOnDec[(size_t)(((op.arg(1) % n) + n) % n)]; r = (req & 1) ? get(req, &dummy) : set(req, 1);
        if (req == 4027) r = get(req, &dummy);
        if (r != OPUS_UNIMPLEMENTED) REPORT(run, prop, strf("foreign_request_not_unimplemented_%s", kindname()), "encoder request %d on a decoder returned %d", req, r); }
      run.ev((uint64_t)r); run.count("ctl_foreign");
    } else {
      // stream-state accessors of the multistream objects
      if (kind == E_MS) { OpusEncoder *sub = nullptr; int id = (int)(op.arg(1) % (L.streams + 3)) - 1; int r = opus_multistream_encoder_ctl(enc.ms, OPUS_MULTISTREAM_GET_ENCODER_STATE(id, &sub));
        bool legal = id >= 0 && id < L.streams; if (legal ? (r != OPUS_OK || !sub) : r != OPUS_BAD_ARG) REPORT(run, prop, "ms_state_accessor_wrong", "encoder stream %d of %d returned %d", id, L.streams, r); run.count("ctl_state_accessor"); }
      else if (kind == D_MS) { OpusDecoder *sub = nullptr; int id = (int)(op.arg(1) % (L.streams + 3)) - 1; int r = opus_multistream_decoder_ctl(dec.ms, OPUS_MULTISTREAM_GET_DECODER_STATE(id, &sub));
        bool legal = id >= 0 && id < L.streams; if (legal ? (r != OPUS_OK || !sub) : r != OPUS_BAD_ARG) REPORT(run, prop, "ms_state_accessor_wrong", "decoder stream %d of %d returned %d", id, L.streams, r); run.count("ctl_state_accessor"); }
      else return;
    }
    run.fired = true;
    expect_unchanged(before, "rejected", (int)op.arg(0), (int)op.arg(1));
  }

  void op_reset() {
    if (!alive()) return;
    std::vector<opus_int32> before = snapshot();
    int r = is_enc11(kind) ? enc.reset() : dec.reset();
    if (r != OPUS_OK) REPORT(run, prop, "reset_failed", "%d", r);
    // settings survive a reset (state-derived getters: bandwidth in use, pitch, last packet duration, in-DTX, bitrate under AUTO/MAX are exempt)
    std::vector<opus_int32> after = snapshot(); auto g = getters();
    for (size_t k = 0; k < g.size(); k++) {
      int q = g[k];
      if (q == OPUS_GET_BANDWIDTH_REQUEST || q == OPUS_GET_PITCH_REQUEST || q == OPUS_GET_LAST_PACKET_DURATION_REQUEST || q == OPUS_GET_IN_DTX_REQUEST) continue;
      if (q == OPUS_GET_BITRATE_REQUEST && (kind != E_SINGLE || m_bitrate == OPUS_AUTO || m_bitrate == OPUS_BITRATE_MAX)) continue;
      if (before[2 * k + 1] != after[2 * k + 1]) REPORT(run, prop, strf("reset_changed_setting_%s", kindname()), "getter %d was %d now %d", q, before[2 * k + 1], after[2 * k + 1]);
    }
    run.count("resets"); first_reset();
  }

  // ENC fidx max_bytes fmt : encode one frame and check that the settings in force are honoured by the packet
  void op_enc(const Op &op) {
    if (!alive()) return;
    if (!is_enc11(kind)) {
      // decoder objects: keep them decoding (getters such as bandwidth / pitch / last packet duration move; settings must not)
      int fi = (int)(((op.arg(0) % 9) + 9) % 9); int frame = (int)((int64_t)kFrames48[fi] * L.fs / 48000);
      std::vector<float> pcm((size_t)frame * L.ch); src_fill(src, L.fs, L.ch, pos, frame, pcm.data());
      Bytes pkt; int ret = enc.encode(pcm.data(), frame, 1500, FMT_F32, pkt); pos += frame;
      if (ret <= 0) return;
      std::vector<opus_int32> before = snapshot();
      int out = (int)((int64_t)kFrames48[fi] * dec.fs / 48000);
      int dr = op.arg(1) % 7 == 0 ? dec.decode(nullptr, 0, out, 0, (int)(op.arg(2) % 3), nullptr) : dec.decode(pkt.data(), (int)pkt.size(), out, 0, (int)(op.arg(2) % 3), nullptr);
      run.ev((uint64_t)dr);
      if (dr > 0) { run.api_ok++; frames++; run.sim_samples48 += kFrames48[fi]; }
      std::vector<opus_int32> after = snapshot(); auto g = getters();
      for (size_t k = 0; k < g.size(); k++) if ((g[k] == OPUS_GET_GAIN_REQUEST || g[k] == OPUS_GET_COMPLEXITY_REQUEST || g[k] == OPUS_GET_PHASE_INVERSION_DISABLED_REQUEST || g[k] == OPUS_GET_SAMPLE_RATE_REQUEST) && before[2 * k + 1] != after[2 * k + 1])
        REPORT(run, prop, strf("decode_changed_setting_%s", kindname()), "getter %d was %d now %d", g[k], before[2 * k + 1], after[2 * k + 1]);
      return;
    }
    int fi = (int)(((op.arg(0) % 9) + 9) % 9), max_bytes = (int)std::max<int64_t>(3, op.arg(1, 1500)), fmt = (int)(((op.arg(2) % 3) + 3) % 3);
    int frame = (int)((int64_t)kFrames48[fi] * L.fs / 48000);
    int sel = frame;
    if (m_expert != 5000) {
      sel = m_expert <= 5005 ? (L.fs / 400) << (m_expert - 5001) : (m_expert - 5001 - 2) * L.fs / 50;
      if (sel > frame) {
        // the requested duration binds: fewer samples than it needs must be refused, never coded as a shorter packet
        std::vector<float> pcm0((size_t)frame * L.ch); Bytes pk0; std::vector<opus_int32> b0 = snapshot();
        int r0 = enc.encode(pcm0.data(), frame, max_bytes, fmt, pk0);
        run.ev((uint64_t)r0); run.count("short_frame_for_expert_duration");
        if (r0 > 0) REPORT(run, prop, "expert_duration_not_honoured", "duration request %d needs %d samples, %d supplied: encoded a packet of %d bytes instead of refusing", m_expert, sel, frame, r0);
        if (r0 != OPUS_BAD_ARG) REPORT(run, prop, "short_frame_undocumented_error", "returned %d", r0);
        expect_unchanged(b0, "refused encode", m_expert, frame);
        run.fired = true;
        return;
      }
    }
    std::vector<float> pcm((size_t)frame * L.ch);
    src_fill(src, L.fs, L.ch, pos, frame, pcm.data());
    std::vector<opus_int32> before_enc = snapshot();
    Bytes pkt; int ret = enc.encode(pcm.data(), frame, max_bytes, fmt, pkt);
    run.ev((uint64_t)ret); run.evb(pkt.data(), pkt.size());
    {
      // settings are changed by requests only: an encode call must leave every setting getter as it was (state-derived getters exempt:
      // bandwidth in use, in-DTX, bitrate (AUTO / MAX resolve against the last frame size; multistream reports per-stream rates in effect),
      // and the per-stream channel forcing that the surround encoder manages itself)
      std::vector<opus_int32> after_enc = snapshot(); auto g = getters();
      for (size_t k = 0; k < g.size(); k++) {
        int q = g[k];
        if (q == OPUS_GET_BANDWIDTH_REQUEST || q == OPUS_GET_IN_DTX_REQUEST || q == OPUS_GET_BITRATE_REQUEST) continue;
        if (kind != E_SINGLE && q == OPUS_GET_FORCE_CHANNELS_REQUEST) continue;
        if (before_enc[2 * k + 1] != after_enc[2 * k + 1]) REPORT(run, prop, strf("encode_changed_setting_%s_%d", kindname(), q), "getter %d was %d, is %d after encoding %d samples (ret %d)", q, before_enc[2 * k + 1], after_enc[2 * k + 1], frame, ret);
      }
      run.count("encode_settings_stable_checked");
    }
    if (ret <= 0) return;
    run.api_ok++; frames++; pos += sel; last_frame = sel; run.sim_samples48 += (long)sel * 48000 / L.fs;
    if (kind != E_SINGLE) {
      // multistream / projection: the requested duration binds every stream's sub-packet
      int off = 0;
      for (int s = 0; s < L.streams; s++) {
        Framed f = model_parse(pkt.data() + off, (int)pkt.size() - off, s != L.streams - 1);
        if (!f.ok) return;   // (packet validity is C02's subject)
        if ((long)toc_frame48(f.toc) * f.nframes * L.fs != (long)sel * 48000) REPORT(run, prop, "duration_not_honoured_ms", "stream %d: %d x %d (48k) vs %d samples", s, toc_frame48(f.toc), f.nframes, sel);
        first_note(s, f);
        off += f.consumed;
      }
      run.count("honour_checked_ms");
      return;
    }
    Framed f = model_parse(pkt.data(), (int)pkt.size(), false);
    if (!f.ok) return;   // (packet validity is C02's subject)
    unsigned char toc = pkt[0];
    if (run.verbose) printf("packet %ld: ret %d toc %02x mode %d ch %d frames %d sel %d force_ch %d\n", (long)frames, ret, toc, toc_mode(toc), toc_channels(toc), f.nframes, sel, m_force_ch);
    if ((long)toc_frame48(toc) * f.nframes * L.fs != (long)sel * 48000) REPORT(run, prop, "duration_not_honoured", "toc %02x frames %d vs %d samples", toc, f.nframes, sel);
    bool payload = false; for (int i = 0; i < f.nframes; i++) if (f.len[i] > 1) payload = true;
    run.sg(mix64((uint64_t)(toc >> 2), (uint64_t)fi));
    first_note(0, f);
    if (!payload || ret <= 2) { run.count("honour_skipped_dtx_or_empty"); return; }     // DTX / TOC-only "lost frame" packets reuse the previous configuration by construction
    run.count("honour_checked");
    int mode = toc_mode(toc), bw = toc_bandwidth(toc), sch = toc_channels(toc);
    // channel count
    if (m_force_ch != OPUS_AUTO) {
      if (fc_before_first) { if (sch != m_force_ch) REPORT(run, prop, "forced_channels_not_honoured", "forced %d, packet %d has %d (toc %02x)", m_force_ch, (int)frames, sch, toc); run.count("forced_channels_checked"); }
      else if (++fc_coded_since >= 3) {   /* the third CODED packet after the change (TOC-only low-budget packets do not advance the transition) */ if (sch != m_force_ch) REPORT(run, prop, "forced_channels_not_within_three_packets", "forced %d at packet %ld, packet %ld still has %d", m_force_ch, fc_changed_at, frames, sch); run.count("forced_channels_midstream_checked"); }
    }
    if (L.ch == 1 && sch != 1) REPORT(run, prop, "mono_encoder_emits_stereo", "toc %02x", toc);
    // bandwidth
    if (bw_settings_before_first) {
      static const int nyq[5] = {1101, 1102, 1103, 1104, 1105};
      int cap = 1105; for (int i = 0; i < 5; i++) if (kRates[i] == L.fs) cap = nyq[i];
      int lim = m_userbw != OPUS_AUTO ? m_userbw : m_maxbw;   // a forced bandwidth takes the place of the maximum
      if (lim < cap) cap = lim;
      int allowed = cap; if (mode == 2 && cap == 1102) allowed = 1103;   // the MDCT layer has no medium band
      if (bw > allowed) REPORT(run, prop, "bandwidth_cap_not_honoured", "packet bandwidth %d > cap %d (max %d, forced %d, fs %d, mode %d, toc %02x)", bw, cap, m_maxbw, m_userbw, L.fs, mode, toc);
      run.count("bandwidth_checked");
    }
    // MDCT-only configurations
    if (m_app == OPUS_APPLICATION_RESTRICTED_LOWDELAY && mode != 2) REPORT(run, prop, "lowdelay_uses_non_mdct_layer", "toc %02x", toc);
    if (sel * 100 < L.fs && mode != 2) REPORT(run, prop, "short_frame_uses_non_mdct_layer", "toc %02x frame %d", toc, sel);
    if (m_app == OPUS_APPLICATION_RESTRICTED_LOWDELAY || sel * 100 < L.fs) run.count("mdct_only_checked");
  }

  // ---- creation: unsupported arguments and failing allocations (allocsim)
  static int create_any(int which, int fs, int ch, int app, int family, int streams, int coupled, const unsigned char *mapping, void **obj, Layout *out) {
    int err = 12345; *obj = nullptr;
    switch (which) {
      case 0: *obj = opus_encoder_create(fs, ch, app, &err); break;
      case 1: *obj = opus_decoder_create(fs, ch, &err); break;
      case 2: *obj = opus_multistream_encoder_create(fs, ch, streams, coupled, mapping, app, &err); break;
      case 3: { int s = 0, c = 0; unsigned char m[256]; *obj = opus_multistream_surround_encoder_create(fs, ch, family, &s, &c, m, app, &err); if (out) { out->streams = s; out->coupled = c; } break; }
      case 4: *obj = opus_multistream_decoder_create(fs, ch, streams, coupled, mapping, &err); break;
      case 5: { int s = 0, c = 0; *obj = opus_projection_ambisonics_encoder_create(fs, ch, family, &s, &c, app, &err); break; }
      case 6: *obj = opus_repacketizer_create(); err = *obj ? OPUS_OK : OPUS_ALLOC_FAIL; break;
      case 7: {   // projection decoder: needs a demixing matrix from a real encoder
        int s = 0, c = 0, e2 = 0; OpusProjectionEncoder *pe = opus_projection_ambisonics_encoder_create(48000, 4, 3, &s, &c, OPUS_APPLICATION_AUDIO, &e2);
        if (!pe) { err = e2; break; }
        opus_int32 ms = 0; opus_projection_encoder_ctl(pe, OPUS_PROJECTION_GET_DEMIXING_MATRIX_SIZE(&ms)); std::vector<unsigned char> mat((size_t)ms);
        opus_projection_encoder_ctl(pe, OPUS_PROJECTION_GET_DEMIXING_MATRIX(mat.data(), ms));
        *obj = opus_projection_decoder_create(fs, ch, s, c, mat.data(), ms, &err);
        opus_projection_encoder_destroy(pe); break;
      }
    }
    return err;
  }
  static void destroy_any(int which, void *o) {
    if (!o) return;
    switch (which) {
      case 0: opus_encoder_destroy((OpusEncoder *)o); break; case 1: opus_decoder_destroy((OpusDecoder *)o); break;
      case 2: case 3: opus_multistream_encoder_destroy((OpusMSEncoder *)o); break; case 4: opus_multistream_decoder_destroy((OpusMSDecoder *)o); break;
      case 5: opus_projection_encoder_destroy((OpusProjectionEncoder *)o); break; case 6: opus_repacketizer_destroy((OpusRepacketizer *)o); break;
      case 7: opus_projection_decoder_destroy((OpusProjectionDecoder *)o); break;
    }
  }
  // CREATE which fs ch app family streams coupled mapseed : arguments may be unsupported; then allocation failures are enumerated
  void op_create(const Op &op) {
    int which = (int)(((op.arg(0) % 8) + 8) % 8);
    int fs = (int)op.arg(1), ch = (int)op.arg(2), app = (int)op.arg(3), family = (int)op.arg(4), streams = (int)op.arg(5), coupled = (int)op.arg(6);
    unsigned char mapping[256]; Rng mr((uint64_t)op.arg(7) + 3); for (int i = 0; i < 256; i++) mapping[i] = (unsigned char)(mr.chance(0.1) ? 255 : mr.range(0, std::max(0, streams + coupled - 1)));
    if (ch > 255 || ch < -1) ch = 255;
    bool fs_ok = fs == 8000 || fs == 12000 || fs == 16000 || fs == 24000 || fs == 48000;
    bool app_ok = app == 2048 || app == 2049 || app == 2051;
    bool args_ok = true;   // documented argument validity where it is a closed formula; layouts beyond that are judged by the library (result must be consistent)
    bool judge = true;
    switch (which) {
      case 0: args_ok = fs_ok && app_ok && (ch == 1 || ch == 2); break;
      case 1: args_ok = fs_ok && (ch == 1 || ch == 2); break;
      case 6: args_ok = true; break;
      case 7: args_ok = fs_ok && ch == 4; judge = fs_ok ? true : true; break;
      default: judge = false; if (!fs_ok || (which != 4 && !app_ok) || ch < 1 || ch > 255) { args_ok = false; judge = true; } break;
    }
    long live0 = g_alloc.live;
    // fault-free attempt
    void *o = nullptr; g_alloc.fail_at = -1; g_alloc.count = 0;
    int err = create_any(which, fs, ch, app, family, streams, coupled, mapping, &o, nullptr);
    long nalloc = g_alloc.count;
    run.ev((uint64_t)err); run.ev((uint64_t)(o != nullptr));
    if ((o != nullptr) != (err == OPUS_OK)) REPORT(run, prop, "create_result_inconsistent", "creator %d returned %s with error %d", which, o ? "an object" : "NULL", err);
    if (judge) {
      if (args_ok && !o) REPORT(run, prop, "create_rejected_supported_arguments", "creator %d fs %d ch %d app %d -> %d", which, fs, ch, app, err);
      if (!args_ok && o) REPORT(run, prop, "create_accepted_unsupported_arguments", "creator %d fs %d ch %d app %d", which, fs, ch, app);
    }
    // single-stream creators document OPUS_BAD_ARG; the multistream / projection creators also answer an unsupported layout with
    // OPUS_ALLOC_FAIL (their size query returns 0) - any documented error code is accepted there, never success or an internal error
    bool err_ok = err == OPUS_BAD_ARG || err == OPUS_UNIMPLEMENTED || (which >= 2 && which != 6 && err == OPUS_ALLOC_FAIL);
    if (!o && !err_ok) REPORT(run, prop, "create_undocumented_error", "creator %d fs %d ch %d app %d family %d -> %d", which, fs, ch, app, family, err);
    destroy_any(which, o);
    if (g_alloc.live != live0) REPORT(run, prop, "create_destroy_leaks", "creator %d: %ld live blocks before, %ld after", which, live0, g_alloc.live);
    run.count(o ? "create_ok" : "create_rejected");
    if (!o) { run.fired = true; return; }
    // allocsim: fail the k-th allocation for every k the fault-free creation performed
    for (long k = 0; k < nalloc; k++) {
      void *o2 = nullptr; g_alloc.count = 0; g_alloc.fail_at = k; g_alloc.failed = 0;
      int e2 = create_any(which, fs, ch, app, family, streams, coupled, mapping, &o2, nullptr);
      long failed = g_alloc.failed; g_alloc.fail_at = -1;
      run.ev((uint64_t)e2);
      if (failed) {
        run.count("alloc_fail_injected"); run.fired = true;
        if (o2 || e2 != OPUS_ALLOC_FAIL) REPORT(run, prop, "alloc_failure_not_reported", "creator %d, allocation %ld failed: returned %s, error %d", which, k, o2 ? "an object" : "NULL", e2);
      }
      destroy_any(which, o2);
      if (g_alloc.live != live0) REPORT(run, prop, "alloc_failure_leaks", "creator %d, allocation %ld: %ld live blocks before, %ld after", which, k, live0, g_alloc.live);
    }
    // init-in-place with unsupported arguments must refuse (encoder / decoder)
    if (which <= 1) {
      int sz = which == 0 ? opus_encoder_get_size(2) : opus_decoder_get_size(2);
      ExactBuf mem((size_t)sz);
      int badfs = 44100, r = which == 0 ? opus_encoder_init((OpusEncoder *)mem.p, badfs, 2, 2049) : opus_decoder_init((OpusDecoder *)mem.p, badfs, 2);
      if (r != OPUS_BAD_ARG) REPORT(run, prop, "init_accepted_unsupported_rate", "%d", r);
      r = which == 0 ? opus_encoder_init((OpusEncoder *)mem.p, 48000, 3, 2049) : opus_decoder_init((OpusDecoder *)mem.p, 48000, 0);
      if (r != OPUS_BAD_ARG) REPORT(run, prop, "init_accepted_unsupported_channels", "%d", r);
      if ((which == 0 ? opus_encoder_get_size(3) : opus_decoder_get_size(3)) != 0) REPORT(run, prop, "get_size_nonzero_for_unsupported_channels", "which %d", which);
    }
  }

  void go(const Plan &p) {
    for (size_t i = 0; i < p.ops.size(); i++) {
      const Op &op = p.ops[i]; run.cur_op = (int)i;
      if (op.k == "NEW") op_new(op);
      else if (op.k == "CTL") op_ctl(op);
      else if (op.k == "APP") op_app(op);
      else if (op.k == "BITRATE") op_bitrate(op);
      else if (op.k == "MISC") op_misc(op);
      else if (op.k == "RESET") op_reset();
      else if (op.k == "SRC") { src.fam = (int)(((op.arg(0) % SRC_NFAM) + SRC_NFAM) % SRC_NFAM); src.p0 = op.arg(1); src.amp = op.arg(2); src.seed = op.arg(3); src.p3 = op.arg(4); }
      else if (op.k == "ENC") op_enc(op);
      else if (op.k == "CREATE") op_create(op);
    }
  }
};

Plan gen(uint64_t seed, int tier) {
  Rng r(seed);
  Plan p; p.hdr["scenario"] = "ctl";
  // creators first (allocsim), then a configured object under control-plane churn
  int ncreate = (int)r.range(0, 3);
  for (int i = 0; i < ncreate; i++) {
    int which = (int)r.range(0, 7);
    int fs = r.chance(0.7) ? kRates[r.range(0, 4)] : r.pick({0, 7999, 8001, 11025, 22050, 32000, 44100, 96000, -48000, 48001});
    int ch = r.chance(0.7) ? (int)r.range(1, which >= 2 && which != 6 && which != 7 ? 8 : 2) : r.pick({0, -1, 3, 4, 255, 256, 1000});
    if (which == 7) ch = r.chance(0.8) ? 4 : r.pick({0, 3, 5});
    int app = r.chance(0.8) ? kApps[r.range(0, 2)] : r.pick({0, 2047, 2050, 2052, -1});
    int family = which == 5 ? (r.chance(0.8) ? 3 : r.pick({0, 1, 2, 255})) : r.pick({0, 1, 1, 2, 255, 3, 7});
    if (which == 5 && r.chance(0.8)) ch = r.pick({4, 6, 9, 11, 16});
    int streams = (int)r.range(0, 5), coupled = (int)r.range(0, 3);
    if (r.chance(0.1)) { streams = r.pick({-1, 0, 255, 256}); }
    p.ops.push_back(mkop("CREATE", {which, fs, ch, app, family, streams, coupled, (int64_t)r.range(0, 1 << 20)}));
  }
  if (r.chance(0.1)) {
    // channel-switch sessions: "a forced channel count changed mid-stream takes effect within three packets" - a stereo encoder settled
    // in stereo, then FORCE_CHANNELS(1) (and back, and again) with the other settings left alone for at least four packets after each
    // change; long (multi-frame) packets and speech-friendly settings over-represented, since the SILK layer's two-frame stereo-to-mono
    // hand-over lives there
    p.ops.push_back(mkop("NEW", {0, r.range(1, 4), 2, r.range(0, 1), 0, r.range(0, 9), (int64_t)r.range(1, 1 << 30)}));
    p.ops.push_back(mkop("SRC", {r.pick({(int)SRC_VOICED, (int)SRC_STEREO, (int)SRC_MUSIC, (int)SRC_NOISE, (int)SRC_BURSTYSTEREO, (int)SRC_STEADYVOICED}), r.pick({110, 220, 440, 1000}), r.pick({300, 500, 900}), r.range(1, 1000), r.range(0, 1000)}));
    if (r.chance(0.5)) p.ops.push_back(mkop("CTL", {9, r.pick({1, 5}), 0}));          // SIGNAL voice / music
    if (r.chance(0.4)) p.ops.push_back(mkop("CTL", {0, r.range(1, 5), 0}));            // MAX_BANDWIDTH
    if (r.chance(0.3)) p.ops.push_back(mkop("CTL", {6, r.pick({1, 5}), 0}));          // DTX
    if (r.chance(0.3)) p.ops.push_back(mkop("CTL", {3, r.range(1, 5), 0}));            // COMPLEXITY
    if (r.chance(0.3)) p.ops.push_back(mkop("CTL", {1, r.pick({1, 5}), 0}));          // VBR
    p.ops.push_back(mkop("BITRATE", {15, r.pick({12000, 16000, 24000, 32000, 40000, 48000, 64000, 96000})}));
    if (r.chance(0.5)) p.ops.push_back(mkop("CTL", {8, 5, 0}));                         // FORCE_CHANNELS(2) first
    int fidx = r.weighted({0, 1, 1, 3, 4, 3, 2, 1, 2});
    int rounds = (int)r.range(1, tier ? 4 : 2);
    for (int i = (int)r.range(2, 8); i > 0; i--) p.ops.push_back(mkop("ENC", {fidx, 1500, r.range(0, 2)}));
    for (int k = 0; k < rounds; k++) {
      p.ops.push_back(mkop("CTL", {8, 1, 0}));                                          // FORCE_CHANNELS(1)
      for (int i = (int)r.range(4, 8); i > 0; i--) p.ops.push_back(mkop("ENC", {fidx, 1500, r.range(0, 2)}));
      p.ops.push_back(mkop("CTL", {8, r.pick({5, 7}), 0}));                             // back to 2 / AUTO
      if (r.chance(0.3)) fidx = r.weighted({0, 1, 1, 3, 4, 3, 2, 1, 2});
      for (int i = (int)r.range(4, 8); i > 0; i--) p.ops.push_back(mkop("ENC", {fidx, 1500, r.range(0, 2)}));
    }
    return p;
  }
  int kind = r.weighted({8, 3, 1, 4, 2, 1});
  int ek = kind % 3, ch = 1, family = 0;
  if (ek == 0) ch = (int)r.range(1, 2);
  else if (ek == 1) { family = r.pick({1, 1, 2, 255, 0}); ch = family == 1 ? (int)r.range(1, 6) : family == 2 ? r.pick({1, 4, 6}) : family == 0 ? (int)r.range(1, 2) : (int)r.range(1, 4); }
  else ch = r.pick({4, 6});
  p.ops.push_back(mkop("NEW", {kind, r.range(0, 4), ch, r.range(0, 2), family, r.range(0, 9), (int64_t)r.range(1, 1 << 30)}));
  p.ops.push_back(mkop("SRC", {r.weighted({1, 0, 4, 2, 5, 3, 1, 1, 2, 0, 0, 1, 4, 1, 1, 2}), r.pick({110, 220, 440, 1000, 3000, 7000}), r.pick({100, 300, 500, 900}), r.range(1, 1000), r.range(0, 1000)}));
  auto push_ctl = [&]() {
    int w = r.weighted({10, 2, 3, 3, 1});
    if (w == 0) p.ops.push_back(mkop("CTL", {r.range(0, 13), r.range(0, 14), (int64_t)r.range(-70000, 70000)}));
    else if (w == 1) p.ops.push_back(mkop("APP", {r.range(0, 8)}));
    else if (w == 2) p.ops.push_back(mkop("BITRATE", {r.range(0, 15), (int64_t)r.range(-1000, 700000)}));
    else if (w == 3) p.ops.push_back(mkop("MISC", {r.range(0, 3), r.range(0, 40), r.range(-5, 5)}));
    else p.ops.push_back(mkop("RESET"));
  };
  // settings in force before the first frame
  int npre = (int)r.range(0, 8);
  for (int i = 0; i < npre; i++) push_ctl();
  // make forced channels / bandwidth caps common before the first frame (the honouring clause is about them)
  if (r.chance(0.5)) p.ops.push_back(mkop("CTL", {8, r.pick({1, 5, 7}), 0}));   // FORCE_CHANNELS lo / hi / AUTO
  if (r.chance(0.5)) p.ops.push_back(mkop("CTL", {0, r.range(1, 5), 0}));        // MAX_BANDWIDTH
  if (r.chance(0.35)) p.ops.push_back(mkop("CTL", {2, r.pick({1, 2, 3, 4, 5, 7}), 0}));   // BANDWIDTH
  if (r.chance(0.5)) p.ops.push_back(mkop("BITRATE", {15, r.pick({6000, 8000, 12000, 16000, 24000, 32000, 48000, 64000, 96000, 128000})}));
  int n = (int)(tier ? r.range(20, 120) : r.range(6, 40));
  int fidx = r.weighted({1, 1, 3, 8, 3, 2, 1, 1, 1});
  double pctl = r.pick({0.05, 0.2, 0.5, 1.0});
  for (int i = 0; i < n; i++) {
    if (r.chance(pctl)) { int k = (int)r.range(1, 3); for (int j = 0; j < k; j++) push_ctl(); }
    if (r.chance(0.05)) p.ops.push_back(mkop("SRC", {r.weighted({2, 0, 4, 2, 5, 3, 1, 1, 2, 0, 0, 1, 4, 1, 1, 2}), r.pick({110, 220, 440, 1000, 3000, 7000}), r.pick({100, 300, 500, 900}), r.range(1, 1000), r.range(0, 1000)}));
    if (r.chance(0.1)) fidx = r.weighted({1, 1, 3, 8, 3, 2, 1, 1, 1});
    p.ops.push_back(mkop("ENC", {fidx, r.pick({1500, 1500, 1276, 400, 100}), r.range(0, 2)}));
  }
  return p;
}

void exec(const Plan &p, Run &run) { Ctl11 c(run); c.go(p); }

}  // namespace
REGISTER_SCENARIO(C11, "ctl", gen, exec);
