// C12 — codec state is deterministic, freely copyable (memcpy of get_size bytes) and reset-equivalent (statesim).
// The durable state is exactly the *_get_size() bytes; heap neighbours, stack residue, addresses, other objects
// and earlier unrelated calls are volatile and owned by the simulator. Every plan is executed twice under two
// different environments and the two event logs must be identical.
#include "session.h"

namespace {

enum ObjKind { O_ENC = 0, O_MSENC, O_PROJENC, O_DEC, O_MSDEC, O_PROJDEC };
static bool is_enc(int k) { return k <= O_PROJENC; }

struct ObjCfg {
  int kind = O_ENC, fs = 48000, ch = 1, app = OPUS_APPLICATION_AUDIO, family = 0, streams = 1, coupled = 0;
  unsigned char mapping[256] = {0};
  Bytes demix;
};

static size_t obj_size(const ObjCfg &c) {
  switch (c.kind) {
    case O_ENC: return (size_t)opus_encoder_get_size(c.ch);
    case O_MSENC: return (size_t)opus_multistream_surround_encoder_get_size(c.ch, c.family);
    case O_PROJENC: return (size_t)opus_projection_ambisonics_encoder_get_size(c.ch, c.family);
    case O_DEC: return (size_t)opus_decoder_get_size(c.ch);
    case O_MSDEC: return (size_t)opus_multistream_decoder_get_size(c.streams, c.coupled);
    case O_PROJDEC: return (size_t)opus_projection_decoder_get_size(c.ch, c.streams, c.coupled);
  }
  return 0;
}
static int obj_init(ObjCfg &c, void *m) {
  switch (c.kind) {
    case O_ENC: return opus_encoder_init((OpusEncoder *)m, c.fs, c.ch, c.app);
    case O_MSENC: return opus_multistream_surround_encoder_init((OpusMSEncoder *)m, c.fs, c.ch, c.family, &c.streams, &c.coupled, c.mapping, c.app);
    case O_PROJENC: return opus_projection_ambisonics_encoder_init((OpusProjectionEncoder *)m, c.fs, c.ch, c.family, &c.streams, &c.coupled, c.app);
    case O_DEC: return opus_decoder_init((OpusDecoder *)m, c.fs, c.ch);
    case O_MSDEC: return opus_multistream_decoder_init((OpusMSDecoder *)m, c.fs, c.ch, c.streams, c.coupled, c.mapping);
    case O_PROJDEC: return opus_projection_decoder_init((OpusProjectionDecoder *)m, c.fs, c.ch, c.streams, c.coupled, (unsigned char *)c.demix.data(), (opus_int32)c.demix.size());
  }
  return OPUS_BAD_ARG;
}
static int obj_set(const ObjCfg &c, void *m, int req, int val) {
  switch (c.kind) {
    case O_ENC: return opus_encoder_ctl((OpusEncoder *)m, req, val);
    case O_MSENC: return opus_multistream_encoder_ctl((OpusMSEncoder *)m, req, val);
    case O_PROJENC: return opus_projection_encoder_ctl((OpusProjectionEncoder *)m, req, val);
    case O_DEC: return opus_decoder_ctl((OpusDecoder *)m, req, val);
    case O_MSDEC: return opus_multistream_decoder_ctl((OpusMSDecoder *)m, req, val);
    case O_PROJDEC: return opus_projection_decoder_ctl((OpusProjectionDecoder *)m, req, val);
  }
  return OPUS_BAD_ARG;
}
static int obj_get(const ObjCfg &c, void *m, int req, opus_int32 *val) {
  switch (c.kind) {
    case O_ENC: return opus_encoder_ctl((OpusEncoder *)m, req, val);
    case O_MSENC: return opus_multistream_encoder_ctl((OpusMSEncoder *)m, req, val);
    case O_PROJENC: return opus_projection_encoder_ctl((OpusProjectionEncoder *)m, req, val);
    case O_DEC: return opus_decoder_ctl((OpusDecoder *)m, req, val);
    case O_MSDEC: return opus_multistream_decoder_ctl((OpusMSDecoder *)m, req, val);
    case O_PROJDEC: return opus_projection_decoder_ctl((OpusProjectionDecoder *)m, req, val);
  }
  return OPUS_BAD_ARG;
}
static int obj_reset(const ObjCfg &c, void *m) {
  switch (c.kind) {
    case O_ENC: return opus_encoder_ctl((OpusEncoder *)m, OPUS_RESET_STATE);
    case O_MSENC: return opus_multistream_encoder_ctl((OpusMSEncoder *)m, OPUS_RESET_STATE);
    case O_PROJENC: return opus_projection_encoder_ctl((OpusProjectionEncoder *)m, OPUS_RESET_STATE);
    case O_DEC: return opus_decoder_ctl((OpusDecoder *)m, OPUS_RESET_STATE);
    case O_MSDEC: return opus_multistream_decoder_ctl((OpusMSDecoder *)m, OPUS_RESET_STATE);
    case O_PROJDEC: return opus_projection_decoder_ctl((OpusProjectionDecoder *)m, OPUS_RESET_STATE);
  }
  return OPUS_BAD_ARG;
}

// dirty the stack below the current frame so that stale stack contents differ between environments
// The residue has to look like what a real stack holds - moderate floats and small integers left by earlier DSP code: wild byte
// patterns (huge floats, NaNs) overflow any energy computation they leak into to the same inf / 0 result in both environments and
// hide the dependence (seeded change C12-c3 went unnoticed that way). Blocks of 64 words alternate between floats in (-1, 1) and
// 16-bit-range integers, drawn from a per-environment stream.
static __attribute__((noinline)) void scribble_stack(int pattern) {
  volatile uint32_t buf[50000];   // 200 kB: deeper than the deepest library call (VLAs of a 120 ms stereo frame included)
  uint64_t x = (uint64_t)pattern * 0x9E3779B97F4A7C15ULL + 12345;
  for (size_t i = 0; i < sizeof buf / sizeof buf[0]; i++) {
    x = x * 6364136223846793005ULL + 1442695040888963407ULL;
    uint32_t w = (uint32_t)(x >> 33);
    if ((i >> 6) & 1) { int32_t v = (int32_t)(w & 0xFFFF) - 32768; buf[i] = (uint32_t)v; }
    else { float f = (float)((int32_t)(w & 0xFFFFFF) - (1 << 23)) / (float)(1 << 23); uint32_t u; memcpy(&u, &f, 4); buf[i] = u; }
  }
  __asm__ volatile("" ::: "memory");
}

struct Env { int fill; int spacer; int stackpat; int nbyst; uint64_t seed; };

struct Twin {
  unsigned char *mem = nullptr; size_t size = 0; Rng rs{1};
  std::string role;
};

struct Pass {
  Run &run; const Plan &plan; Env env; const char *prop = "C12";
  std::vector<uint64_t> log;         // observable results, compared between the two passes
  ObjCfg cfg; bool have = false;
  std::vector<Twin> tw;              // tw[0] main, tw[1] never-moved reference; others: clones / fresh
  EncNode helper; Source src; int64_t pos = 0; int expert_dur = OPUS_FRAMESIZE_ARG;   // helper encoder for decoder subjects
  std::vector<std::pair<int, int>> settings;   // every ctl call made on the subject, in order (replayed on a fresh object = "same settings")
  int arch_cap = -1;
  std::vector<std::unique_ptr<EncNode>> byst_e; std::vector<std::unique_ptr<DecNode>> byst_d; Rng brng{7}; Rng byst_rand{99};
  long steps = 0; bool frames_since_reset = false;

  Pass(Run &r, const Plan &p, Env e) : run(r), plan(p), env(e), brng(e.seed) {}
  ~Pass() { for (auto &t : tw) free_block(t); }

  unsigned char *new_block(size_t n) {
    // exact-size block at an environment-dependent address, pre-filled with the environment's pattern
    for (int i = 0; i < env.spacer; i++) { void *x = malloc(64 + 48 * (size_t)i); free(x); }
    // ... and at an address phase that changes from block to block in the second environment: every other block starts 8 bytes
    // into a 16-byte line (8 is all the alignment the library may assume of caller-provided memory), so a layout computed from
    // the absolute address is different in a memcpy clone (seeded change C12-f2)
    size_t phase = env.nbyst > 0 && (blocks_made++ & 1) ? 8 : 0;
    unsigned char *base = (unsigned char *)malloc((n ? n : 1) + phase), *p = base + phase;
    if (env.fill < 256) memset(p, env.fill, n); else { uint64_t x = env.seed; for (size_t i = 0; i < n; i++) p[i] = (unsigned char)(splitmix64(x) >> 17); }
    bases[p] = base;
    return p;
  }
  void free_block(Twin &t) { if (t.mem) { memset(t.mem, 0xDD, t.size); auto it = bases.find(t.mem); free(it != bases.end() ? it->second : t.mem); if (it != bases.end()) bases.erase(it); t.mem = nullptr; } }
  std::map<unsigned char *, unsigned char *> bases; unsigned blocks_made = 0;
  void L(uint64_t x) { log.push_back(x); }

  void bystanders() {
    // unrelated objects of other configurations living and working between the subject's calls (differ between
    // environments): anything the library keeps outside the object's own bytes is exposed to them
    g_arch_force = -1;
    g_rand_stream = &byst_rand;   // bystanders draw their FUZZING decisions from their own stream, never from a twin's
    for (int k = 0; k < env.nbyst; k++) {
      if (byst_e.size() < 3 && brng.chance(0.5)) {
        auto e = std::make_unique<EncNode>(); Layout l; l.fs = kRates[brng.range(0, 4)]; l.ch = (int)brng.range(1, 2); l.app = kApps[brng.range(0, 2)];
        if (e->create(l, brng.next(), -1) == OPUS_OK) {
          if (brng.chance(0.5)) e->set(OPUS_SET_BITRATE_REQUEST, (int)brng.pick({8000, 16000, 32000, 96000}));
          if (brng.chance(0.3)) e->set(OPUS_SET_COMPLEXITY_REQUEST, (int)brng.range(0, 10));
          if (brng.chance(0.3)) e->set(11002, (int)brng.pick({1000, 1001, 1002}));
          if (brng.chance(0.2)) e->set(OPUS_SET_INBAND_FEC_REQUEST, 1), e->set(OPUS_SET_PACKET_LOSS_PERC_REQUEST, 20);
          byst_e.push_back(std::move(e));
        }
        g_rand_stream = &byst_rand;
      }
      if (byst_d.size() < 2 && brng.chance(0.5)) { auto d = std::make_unique<DecNode>(); if (d->create_single(kRates[brng.range(0, 4)], (int)brng.range(1, 2), -1) == OPUS_OK) byst_d.push_back(std::move(d)); }
      if (!byst_e.empty()) {
        EncNode &e = *byst_e[brng.range(0, (int64_t)byst_e.size() - 1)];
        int frame = e.L.fs / (int)brng.pick({100, 50, 50, 25}); std::vector<float> pcm((size_t)frame * e.L.ch);
        Source s; s.fam = (int)brng.pick({(int)SRC_NOISE, (int)SRC_VOICED, (int)SRC_TONES, (int)SRC_MUSIC, (int)SRC_SILENCE, (int)SRC_SQUARE}); s.amp = (int64_t)brng.pick({50, 400, 900});
        s.p0 = (int64_t)brng.pick({50, 80, 150, 440, 3000}); s.seed = (int64_t)brng.range(1, 1000);
        src_fill(s, e.L.fs, e.L.ch, (int64_t)brng.range(0, 100000), frame, pcm.data());
        Bytes pkt; int r = e.encode(pcm.data(), frame, 400, (int)brng.range(0, 2), pkt);
        g_rand_stream = &byst_rand;   // never leave the global pointing into a bystander that may be destroyed below
        if (r > 0 && !byst_d.empty()) {
          DecNode &d = *byst_d[brng.range(0, (int64_t)byst_d.size() - 1)];
          int out = (int)((int64_t)frame * d.fs / e.L.fs);
          if (brng.chance(0.2)) d.decode(nullptr, 0, out, 0, FMT_I16, nullptr); else d.decode(pkt.data(), (int)pkt.size(), out, 0, (int)brng.range(0, 2), nullptr);
        }
      }
      if (brng.chance(0.15) && !byst_e.empty()) byst_e.pop_back();
      if (brng.chance(0.1) && !byst_d.empty()) byst_d.pop_back();
    }
  }
  // between the calls on two twins (only in the environment that has bystanders, and only sometimes)
  void between_twins() { if (env.nbyst > 0 && brng.chance(0.35)) bystanders(); }
  // every twin of the subject runs at the same, plan-chosen CPU level (in the FUZZING build the library would otherwise draw a random
  // level per init, and float results legitimately differ between levels - that is C15's subject, not C12's)
  void before_call(Twin &t) { g_rand_stream = &t.rs; g_arch_cap = arch_cap; g_arch_force = arch_cap >= 0 ? arch_cap : 99; scribble_stack(env.stackpat); }

  // SUBJ kind fsidx ch app family cap rseed
  void op_subj(const Op &op) {
    if (have) return;
    cfg.kind = (int)(((op.arg(0) % 6) + 6) % 6);
    cfg.fs = kRates[((op.arg(1) % 5) + 5) % 5];
    cfg.app = kApps[((op.arg(3) % 3) + 3) % 3];
    arch_cap = (int)op.arg(5, -1);
    g_arch_force = arch_cap >= 0 ? arch_cap : 99;   // the helper encoder too (same level in both passes)
    int ch = (int)std::max<int64_t>(1, op.arg(2, 1));
    int ek = cfg.kind % 3;   // encoder flavour behind it
    Layout l; l.fs = cfg.fs; l.app = cfg.app;
    if (ek == 0) { l.kind = K_SINGLE; l.ch = ch > 2 ? 2 : ch; }
    else if (ek == 1) { l.kind = K_SURROUND; l.family = (int)op.arg(4); l.ch = ch; }
    else { l.kind = K_PROJ; l.family = 3; l.ch = ch; }
    cfg.ch = l.ch; cfg.family = l.family;
    if (!is_enc(cfg.kind) || true) {
      // helper encoder: packet source for decoder subjects, and the way to learn streams/coupled/mapping/demixing matrix
      if (helper.create(l, (uint64_t)op.arg(6, 1) + 99, arch_cap) != OPUS_OK) return;
      cfg.streams = helper.L.streams; cfg.coupled = helper.L.coupled; memcpy(cfg.mapping, helper.L.mapping, 256);
      if (cfg.kind == O_PROJDEC) {
        opus_int32 ms = 0; opus_projection_encoder_ctl(helper.pj, OPUS_PROJECTION_GET_DEMIXING_MATRIX_SIZE(&ms));
        cfg.demix.resize((size_t)ms); opus_projection_encoder_ctl(helper.pj, OPUS_PROJECTION_GET_DEMIXING_MATRIX(cfg.demix.data(), ms));
      }
      if (cfg.kind == O_DEC) { cfg.ch = (int)(1 + (op.arg(6) & 1)); }
    }
    size_t n = obj_size(cfg);
    if (n == 0) return;
    for (int i = 0; i < 2; i++) {
      Twin t; t.size = n; t.mem = new_block(n); t.rs.reseed((uint64_t)op.arg(6, 1)); t.role = i == 0 ? "main" : "ref";
      before_call(t);
      ObjCfg c2 = cfg;
      int err = obj_init(c2, t.mem);
      L((uint64_t)err);
      if (err != OPUS_OK) { free_block(t); for (auto &x : tw) free_block(x); tw.clear(); return; }
      tw.push_back(t);
    }
    have = true;
  }

  void op_ctl(const Op &op) {
    if (!have) return;
    int req = (int)op.arg(0), val = (int)op.arg(1);
    if (is_enc(cfg.kind)) {
      int r0 = 0;
      for (size_t i = 0; i < tw.size(); i++) { before_call(tw[i]); int r = obj_set(cfg, tw[i].mem, req, val); if (i == 0) r0 = r; else if (r != r0) diverged(i, "ctl_return", strf("req %d", req)); }
      L((uint64_t)r0);
      settings.push_back({req, val});
      if (r0 == OPUS_OK) { run.count("ctl_applied"); if (req == OPUS_SET_EXPERT_FRAME_DURATION_REQUEST) expert_dur = val; }
    } else {
      int r = helper.set(req, val);
      if (r == OPUS_OK && req == OPUS_SET_EXPERT_FRAME_DURATION_REQUEST) expert_dur = val;
    }
  }
  void op_dctl(const Op &op) {
    if (!have || is_enc(cfg.kind)) return;
    static const int reqs[3] = {OPUS_SET_GAIN_REQUEST, OPUS_SET_COMPLEXITY_REQUEST, OPUS_SET_PHASE_INVERSION_DISABLED_REQUEST};
    int req = reqs[((op.arg(0) % 3) + 3) % 3], val = (int)op.arg(1), r0 = 0;
    for (size_t i = 0; i < tw.size(); i++) { before_call(tw[i]); int r = obj_set(cfg, tw[i].mem, req, val); if (i == 0) r0 = r; else if (r != r0) diverged(i, "ctl_return", strf("req %d", req)); }
    L((uint64_t)r0);
    settings.push_back({req, val});
  }

  [[noreturn]] void diverged_throw(const std::string &cls, const std::string &detail) { throw Violation{cls, detail}; }
  void diverged(size_t i, const char *what, const std::string &detail) {
    std::string role = tw[i].role;
    std::string cls = (role == "ref" ? "replica_diverged_" : role == "clone" ? "memcpy_clone_diverged_" : role == "fresh" ? "reset_vs_fresh_diverged_" : role == "migrated" ? "migrated_diverged_" : "twin_diverged_");
    static const char *kn[6] = {"enc_", "msenc_", "projenc_", "dec_", "msdec_", "projdec_"};
    cls += kn[cfg.kind];
    cls += what;
    if (known_finding(prop, cls)) { run.known_hits.push_back(cls); drop_twin(i); return; }
    diverged_throw(cls, strf("twin %zu (%s) after %ld steps: %s", i, role.c_str(), steps, detail.c_str()));
  }
  size_t drop_pending = (size_t)-1;
  void drop_twin(size_t i) { drop_pending = i; }
  void apply_drop() { if (drop_pending != (size_t)-1 && drop_pending < tw.size() && drop_pending >= 2) { free_block(tw[drop_pending]); tw.erase(tw.begin() + (long)drop_pending); } drop_pending = (size_t)-1; }

  int frame_for(int fi, int fs) { return (int)((int64_t)kFrames48[((fi % 9) + 9) % 9] * fs / 48000); }

  // STEP fidx maxbytes fmt loss
  void op_step(const Op &op) {
    if (!have) return;
    bystanders();
    int fmt = (int)(((op.arg(2) % 3) + 3) % 3);
    if (is_enc(cfg.kind)) {
      int frame = frame_for((int)op.arg(0), cfg.fs), mb = (int)std::max<int64_t>(1, op.arg(1, 1500));
      if (src.fam == SRC_NONFINITE) fmt = FMT_F32;
      std::vector<float> pcm((size_t)frame * cfg.ch);
      src_fill(src, cfg.fs, cfg.ch, pos, frame, pcm.data());
      Bytes p0; int r0 = 0; opus_uint32 g0 = 0;
      for (size_t i = 0; i < tw.size(); i++) {
        Bytes pk; opus_uint32 rg = 0;
        if (i) between_twins();
        int r = encode_raw(tw[i], pcm.data(), frame, mb, fmt, pk, &rg);
        if (i == 0) { r0 = r; p0 = pk; g0 = rg; }
        else if (r != r0 || pk != p0 || rg != g0) { if (run.verbose && r > 0 && r0 > 0) { printf("diverge: main toc %02x twin toc %02x; main:", p0[0], pk[0]); for (auto b : p0) printf(" %02x", b); printf("\n twin:"); for (auto b : pk) printf(" %02x", b); printf("\n"); } diverged(i, "packet", strf("ret %d vs %d, len %zu vs %zu, range %08x vs %08x", r, r0, pk.size(), p0.size(), rg, g0)); apply_drop(); if (i < tw.size() && tw[i].role != "ref") i--; }
      }
      L((uint64_t)r0); L(hash_bytes(p0.data(), p0.size())); L(g0);
      if (run.verbose && r0 > 0) printf("step %ld: enc ret %d toc %02x (mode %d) frame %d\n", steps + 1, r0, p0[0], toc_mode(p0[0]), frame);
      if (r0 > 0) { run.api_ok++; pos += frame; frames_since_reset = true; run.sim_samples48 += (long)frame * 48000 / cfg.fs; }
      // getters agree
      static const int gets[] = {OPUS_GET_BITRATE_REQUEST, OPUS_GET_BANDWIDTH_REQUEST, OPUS_GET_IN_DTX_REQUEST, OPUS_GET_LOOKAHEAD_REQUEST};
      for (int gq : gets) { opus_int32 v0 = 0; int q0 = 0; for (size_t i = 0; i < tw.size(); i++) { opus_int32 v = 0; int q = obj_get(cfg, tw[i].mem, gq, &v); if (i == 0) { v0 = v; q0 = q; } else if (q != q0 || v != v0) { diverged(i, strf("getter_%d", gq).c_str(), strf("request %d: %d vs %d", gq, v, v0)); apply_drop(); } } L((uint64_t)v0); }
    } else {
      // helper encodes the next packet; subject decodes it (or conceals) on every twin
      int frame = frame_for((int)op.arg(0), helper.L.fs);
      int sel = frame;
      if (expert_dur != OPUS_FRAMESIZE_ARG) { Session tmp; }
      std::vector<float> pcm((size_t)frame * helper.L.ch);
      src_fill(src, helper.L.fs, helper.L.ch, pos, frame, pcm.data());
      Bytes pkt; int er = helper.encode(pcm.data(), frame, (int)std::max<int64_t>(1, op.arg(1, 1500)), FMT_F32, pkt);
      pos += frame;
      if (er <= 0) return;
      if (run.verbose) printf("step %ld: helper packet %d bytes toc %02x (mode %d)\n", steps + 1, er, pkt[0], toc_mode(pkt[0]));
      int dur48 = opus_packet_get_nb_samples(pkt.data(), (int)pkt.size(), 48000);
      if (cfg.kind != O_DEC) { dur48 = (int)((int64_t)frame * 48000 / helper.L.fs); }
      if (dur48 <= 0) return;
      int out = (int)((int64_t)dur48 * cfg.fs / 48000);
      int loss = (int)(op.arg(3) % 4);   // 0 decode, 1 PLC, 2 FEC-style call on this packet, 3 decode of a corrupted packet (same TOC, seeded random payload)
      if (loss == 3) { Rng g((uint64_t)steps * 977 + (uint64_t)op.arg(1) + 5); if (g.chance(0.5)) pkt.resize((size_t)g.range(2, 300)); for (size_t i = 1; i < pkt.size(); i++) pkt[i] = (unsigned char)g.next(); loss = 0; run.count("dec_garbage_steps"); }
      (void)sel;
      uint64_t h0 = 0; int r0 = 0; opus_uint32 g0 = 0;
      for (size_t i = 0; i < tw.size(); i++) {
        uint64_t h = 0; opus_uint32 rg = 0;
        if (i) between_twins();
        int r = decode_raw(tw[i], loss == 1 ? nullptr : pkt.data(), loss == 1 ? 0 : (int)pkt.size(), out, loss == 2, fmt, &h, &rg);
        if (i == 0) { r0 = r; h0 = h; g0 = rg; }
        else if (r != r0 || h != h0 || rg != g0) { diverged(i, "pcm", strf("ret %d vs %d, range %08x vs %08x", r, r0, rg, g0)); apply_drop(); if (i < tw.size() && tw[i].role != "ref") i--; }
      }
      L((uint64_t)r0); L(h0); L(g0);
      if (r0 > 0) { run.api_ok++; frames_since_reset = true; run.sim_samples48 += (long)r0 * 48000 / cfg.fs; }
      if (loss) run.count("dec_loss_steps");
    }
    steps++;
    if (run.verbose) for (size_t k = 2; k < tw.size(); k++) if (tw[k].role == "fresh") {
      printf("after step %ld: ", steps); int nd = 0;
      size_t i = 0; while (i < tw[k].size) { if (tw[0].mem[i] != tw[k].mem[i]) { size_t j = i; while (j < tw[k].size && tw[0].mem[j] != tw[k].mem[j]) j++; if (nd++ < 14) printf("[%zu..%zu) ", i, j); i = j; } else i++; }
      printf(" (%d ranges)\n", nd);
    }
  }

  int encode_raw(Twin &t, const float *pcm, int frame, int mb, int fmt, Bytes &out, opus_uint32 *rg) {
    size_t ns = (size_t)frame * cfg.ch;
    ExactBuf ob((size_t)mb); int ret;
    before_call(t);
    void *m = t.mem;
    if (fmt == FMT_F32) {
      ExactBuf ib(ns * 4); memcpy(ib.p, pcm, ns * 4); const float *in = (const float *)ib.p;
      ret = cfg.kind == O_ENC ? opus_encode_float((OpusEncoder *)m, in, frame, ob.p, mb) : cfg.kind == O_MSENC ? opus_multistream_encode_float((OpusMSEncoder *)m, in, frame, ob.p, mb) : opus_projection_encode_float((OpusProjectionEncoder *)m, in, frame, ob.p, mb);
    } else if (fmt == FMT_I16) {
      ExactBuf ib(ns * 2); opus_int16 *in = (opus_int16 *)ib.p;
      for (size_t i = 0; i < ns; i++) { float v = pcm[i] * 32768.f; in[i] = !(v == v) ? 0 : v > 32767.f ? 32767 : v < -32768.f ? -32768 : (opus_int16)lrintf(v); }
      ret = cfg.kind == O_ENC ? opus_encode((OpusEncoder *)m, in, frame, ob.p, mb) : cfg.kind == O_MSENC ? opus_multistream_encode((OpusMSEncoder *)m, in, frame, ob.p, mb) : opus_projection_encode((OpusProjectionEncoder *)m, in, frame, ob.p, mb);
    } else {
      ExactBuf ib(ns * 4); opus_int32 *in = (opus_int32 *)ib.p;
      for (size_t i = 0; i < ns; i++) { float v = pcm[i] * 8388608.f; in[i] = !(v == v) ? 0 : v > 8388607.f ? 8388607 : v < -8388608.f ? -8388608 : (opus_int32)lrintf(v); }
      ret = cfg.kind == O_ENC ? opus_encode24((OpusEncoder *)m, in, frame, ob.p, mb) : cfg.kind == O_MSENC ? opus_multistream_encode24((OpusMSEncoder *)m, in, frame, ob.p, mb) : opus_projection_encode24((OpusProjectionEncoder *)m, in, frame, ob.p, mb);
    }
    g_arch_cap = -1;
    out.clear(); if (ret > 0 && ret <= mb) out.assign(ob.p, ob.p + ret);
    opus_int32 r = 0; obj_get(cfg, m, OPUS_GET_FINAL_RANGE_REQUEST, &r); *rg = (opus_uint32)r;
    return ret;
  }
  int decode_raw(Twin &t, const unsigned char *data, int len, int frame_size, int fec, int fmt, uint64_t *h, opus_uint32 *rg) {
    size_t ss = fmt == FMT_I16 ? 2 : 4; ExactBuf ob((size_t)frame_size * cfg.ch * ss, 0x7B);
    ExactBuf pk(data ? (size_t)len : 0); if (data && len) memcpy(pk.p, data, (size_t)len);
    const unsigned char *pp = data ? pk.p : nullptr;
    before_call(t);
    void *m = t.mem; int ret;
    if (fmt == FMT_I16) ret = cfg.kind == O_DEC ? opus_decode((OpusDecoder *)m, pp, len, (opus_int16 *)ob.p, frame_size, fec) : cfg.kind == O_MSDEC ? opus_multistream_decode((OpusMSDecoder *)m, pp, len, (opus_int16 *)ob.p, frame_size, fec) : opus_projection_decode((OpusProjectionDecoder *)m, pp, len, (opus_int16 *)ob.p, frame_size, fec);
    else if (fmt == FMT_I24) ret = cfg.kind == O_DEC ? opus_decode24((OpusDecoder *)m, pp, len, (opus_int32 *)ob.p, frame_size, fec) : cfg.kind == O_MSDEC ? opus_multistream_decode24((OpusMSDecoder *)m, pp, len, (opus_int32 *)ob.p, frame_size, fec) : opus_projection_decode24((OpusProjectionDecoder *)m, pp, len, (opus_int32 *)ob.p, frame_size, fec);
    else ret = cfg.kind == O_DEC ? opus_decode_float((OpusDecoder *)m, pp, len, (float *)ob.p, frame_size, fec) : cfg.kind == O_MSDEC ? opus_multistream_decode_float((OpusMSDecoder *)m, pp, len, (float *)ob.p, frame_size, fec) : opus_projection_decode_float((OpusProjectionDecoder *)m, pp, len, (float *)ob.p, frame_size, fec);
    g_arch_cap = -1;
    *h = ret > 0 && ret <= frame_size ? hash_bytes(ob.p, (size_t)ret * cfg.ch * ss) : 0;
    opus_int32 r = 0; obj_get(cfg, m, OPUS_GET_FINAL_RANGE_REQUEST, &r); *rg = (opus_uint32)r;
    return ret;
  }

  // SNAP: memcpy of exactly get_size bytes into a fresh exact-size block at another address
  void op_snap() {
    if (!have) return;
    if (tw.size() >= 5) { free_block(tw[2]); tw.erase(tw.begin() + 2); }
    Twin c; c.size = tw[0].size; c.mem = new_block(c.size); memcpy(c.mem, tw[0].mem, c.size); c.rs = tw[0].rs; c.role = "clone";
    tw.push_back(c); run.count("snap"); run.fired = true;
  }
  // MIGRATE: continue on a copy, scribble and free the original
  void op_migrate() {
    if (!have) return;
    Twin c; c.size = tw[0].size; c.mem = new_block(c.size); memcpy(c.mem, tw[0].mem, c.size); c.rs = tw[0].rs; c.role = "main";
    free_block(tw[0]); tw[0] = c; run.count("migrate"); run.fired = true;
  }
  // RESET: OPUS_RESET_STATE on main and ref; a fresh object with the same settings joins as a twin
  void op_reset(const Op &op) {
    if (!have) return;
    while (tw.size() > 2) { free_block(tw.back()); tw.pop_back(); }
    uint64_t ns = (uint64_t)op.arg(0, 1) * 31 + 17;
    for (auto &t : tw) { before_call(t); int r = obj_reset(cfg, t.mem); L((uint64_t)r); t.rs.reseed(ns); }
    Twin f; f.size = tw[0].size; f.mem = new_block(f.size); f.rs.reseed(ns); f.role = "fresh";
    before_call(f);
    ObjCfg c2 = cfg;
    if (obj_init(c2, f.mem) != OPUS_OK) { free_block(f); return; }
    for (auto &kv : settings) { before_call(f); obj_set(cfg, f.mem, kv.first, kv.second); }
    f.rs.reseed(ns);
    if (run.verbose) {   // diagnosis only: byte ranges that differ between the reset object and the fresh one
      size_t i = 0; while (i < f.size) { if (tw[0].mem[i] != f.mem[i]) { size_t j = i; while (j < f.size && tw[0].mem[j] != f.mem[j]) j++; printf("STATE-DIFF reset-vs-fresh offset %zu..%zu (%zu bytes)\n", i, j, j - i); i = j; } else i++; }
    }
    tw.push_back(f); run.count("reset_fresh"); run.fired = true; frames_since_reset = false;
    if (!is_enc(cfg.kind)) { /* the helper encoder keeps running: the decoder sees a mid-stream join, as after any reset */ }
  }

  void go() {
    for (size_t i = 0; i < plan.ops.size(); i++) {
      const Op &op = plan.ops[i];
      if (op.k == "SUBJ") op_subj(op);
      else if (op.k == "SRC") { src.fam = (int)(((op.arg(0) % SRC_NFAM) + SRC_NFAM) % SRC_NFAM); src.p0 = op.arg(1); src.amp = op.arg(2); src.seed = op.arg(3); src.p3 = op.arg(4); }
      else if (op.k == "CTL") op_ctl(op);
      else if (op.k == "DCTL") op_dctl(op);
      else if (op.k == "STEP") op_step(op);
      else if (op.k == "SNAP") op_snap();
      else if (op.k == "MIGRATE") op_migrate();
      else if (op.k == "RESET") op_reset(op);
    }
  }
};

Plan gen(uint64_t seed, int tier) {
  Rng r(seed);
  Plan p; p.hdr["scenario"] = "statesim";
  int kind = r.weighted({8, 2, 1, 6, 2, 1});
  int ek = kind % 3, ch = 1, family = 0;
  if (ek == 0) ch = (int)r.range(1, 2);
  else if (ek == 1) { family = r.pick({1, 1, 1, 2, 255}); ch = family == 1 ? (int)r.range(1, tier ? 8 : 6) : family == 2 ? r.pick({1, 4, 6}) : (int)r.range(1, 4); }
  else ch = r.pick({4, 6});
  int host = host_arch();
  bool hi_stereo = ek == 0 && ch == 2 && r.chance(0.3);
  p.ops.push_back(mkop("SUBJ", {kind, hi_stereo ? r.pick({4, 4, 3}) : r.range(0, 4), ch, hi_stereo && r.chance(0.7) ? 0 : r.range(0, 2), family, r.chance(0.5) ? -1 : r.range(0, host), (int64_t)r.range(1, 1 << 30)}));
  auto &doms = enc_ctl_domains();
  auto push_ctl = [&]() {
    const CtlDom &d = doms[r.range(0, (int64_t)doms.size() - 1)];
    if (d.req == OPUS_SET_EXPERT_FRAME_DURATION_REQUEST) return;
    int v = d.legal[r.range(0, (int64_t)d.legal.size() - 1)];
    if (d.req == OPUS_SET_BITRATE_REQUEST && r.chance(0.5)) v = (int)r.range(500, 200000);
    p.ops.push_back(mkop("CTL", {d.req, v}));
  };
  auto push_src = [&]() { p.ops.push_back(mkop("SRC", {r.weighted({3, 1, 4, 2, 5, 3, 1, 1, 2, 1, 1, 1, 4, 1, 1, 2}), r.pick({60, 110, 220, 440, 1000, 3000, 7000}), r.pick({1, 10, 100, 300, 500, 900, 1000, 1000, 1600, 2500}) /* beyond full scale: the 16-bit decode path then soft-clips, with memory from frame to frame */, r.range(1, 1000), r.range(0, 1000)})); };
  for (int i = (int)r.range(0, 4); i > 0; i--) push_ctl();
  if (hi_stereo) {
    // high-rate stereo presets: hard CBR / voice / FEC settings reach coding tools (dual stereo, hybrid folding, redundancy) that the
    // default settings rarely use - for decoder subjects these are the helper encoder's settings
    p.ops.push_back(mkop("CTL", {OPUS_SET_VBR_REQUEST, r.chance(0.7) ? 0 : 1}));
    p.ops.push_back(mkop("CTL", {OPUS_SET_BITRATE_REQUEST, r.pick({96000, 96000, 128000, 160000, 256000})}));
    if (r.chance(0.8)) p.ops.push_back(mkop("CTL", {OPUS_SET_SIGNAL_REQUEST, OPUS_SIGNAL_VOICE}));
    if (r.chance(0.8)) { p.ops.push_back(mkop("CTL", {OPUS_SET_INBAND_FEC_REQUEST, 1})); p.ops.push_back(mkop("CTL", {OPUS_SET_PACKET_LOSS_PERC_REQUEST, r.pick({15, 15, 25})})); }
    if (r.chance(0.5)) p.ops.push_back(mkop("CTL", {OPUS_SET_BANDWIDTH_REQUEST, 1105}));
    if (r.chance(0.5)) p.ops.push_back(mkop("CTL", {11002 /* OPUS_SET_FORCE_MODE */, 1001 /* hybrid, as opus_demo does: dual stereo + hybrid folding */}));
  }
  if (hi_stereo && r.chance(0.6)) p.ops.push_back(mkop("SRC", {SRC_BURSTYSTEREO, r.pick({180, 440, 1000}), r.pick({300, 500, 900}), r.range(1, 1000), 0}));
  else
  push_src();
  int n = (int)(tier ? r.range(40, 250) : r.range(10, 60));
  int fidx = r.weighted({1, 1, 4, 8, 3, 3, 1, 1, 1});
  double psnap = r.pick({0.0, 0.05, 0.15}), pmig = r.pick({0.0, 0.03, 0.1}), preset = r.pick({0.0, 0.03, 0.08}), pctl = r.pick({0.0, 0.1, 0.3}), ploss = r.pick({0.0, 0.1, 0.3});
  if (psnap + pmig + preset == 0) psnap = 0.1;
  for (int i = 0; i < n; i++) {
    if (r.chance(pctl)) push_ctl();
    if (r.chance(0.06)) push_src();
    if (r.chance(0.1)) fidx = r.weighted({1, 1, 4, 8, 3, 3, 1, 1, 1});
    if (r.chance(0.05)) p.ops.push_back(mkop("DCTL", {r.range(0, 2), r.pick({0, 1, 5, 10, 256, -256, 3000, -3000, 32767, -32768})}));
    if (r.chance(psnap)) p.ops.push_back(mkop("SNAP"));
    if (r.chance(pmig)) p.ops.push_back(mkop("MIGRATE"));
    if (r.chance(preset)) p.ops.push_back(mkop("RESET", {(int64_t)r.range(1, 1 << 30)}));
    p.ops.push_back(mkop("STEP", {fidx, r.pick({1500, 1500, 1276, 300, 60, 20, 8, 3, 2, 1}), r.range(0, 2), r.chance(ploss) ? r.range(1, 3) : 0}));
  }
  return p;
}

void exec(const Plan &p, Run &run) {
  Rng er(p.seed ^ 0xE17);
  // two environments that differ in every volatile aspect
  Env a{0x00, 0, 0x11, 0, 1}, b{(int)er.pick({0xFF, 0xA5, 256}), (int)er.range(1, 9), 0xC3, (int)er.range(1, 3), er.next() | 1};
  std::vector<uint64_t> la;
  {
    Pass pa(run, p, a); pa.go(); la = pa.log;
  }
  long ok_a = run.api_ok;
  Pass pb(run, p, b); pb.go();
  run.api_ok = ok_a;
  for (auto x : la) run.ev(x);
  size_t n = std::min(la.size(), pb.log.size());
  for (size_t i = 0; i < n; i++) if (la[i] != pb.log[i]) REPORT(run, "C12", std::string("nondeterministic_across_environments_") + (is_enc(pb.cfg.kind) ? "enc" : "dec"), "log entry %zu of %zu differs (fill %02x spacer %d bystanders %d)", i, la.size(), b.fill, b.spacer, b.nbyst);
  if (la.size() != pb.log.size()) REPORT(run, "C12", "nondeterministic_across_environments_len", "%zu vs %zu", la.size(), pb.log.size());
  run.count(is_enc(pb.cfg.kind) ? "subject_encoder" : "subject_decoder");
  run.sg(mix64(pb.cfg.kind, la.size()));
  for (auto x : la) run.sg(x & 0xF);
}

}  // namespace
// fork per run: the result of a run must be a function of its plan alone, also for a tree that keeps hidden process-global state
REGISTER_SCENARIO_FORK(C12, "statesim", gen, exec);
