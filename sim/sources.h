// Deterministic closed-form signal sources. A source is (family, p0..p3); samples are a pure function
// of (source, Fs, channel, absolute sample index) so plans never store audio.
#pragma once
#include "core.h"

enum SrcFamily {
  SRC_SILENCE = 0, SRC_DC, SRC_TONES, SRC_SWEEP, SRC_VOICED, SRC_NOISE, SRC_CLICKS, SRC_SQUARE,
  SRC_STEREO, SRC_NONFINITE, SRC_DENORMAL, SRC_DITHER, SRC_MUSIC, SRC_STEADYVOICED, SRC_ANTIPHASE, SRC_BURSTYSTEREO, SRC_ONSETS, SRC_NFAM
};
static const char *const kSrcName[] = {"silence", "dc", "tones", "sweep", "voiced", "noise", "clicks", "square",
                                       "stereo", "nonfinite", "denormal", "dither", "music", "steadyvoiced", "antiphase", "burstystereo", "onsets"};

struct Source {
  int fam = SRC_SILENCE;
  int64_t p0 = 0;   // main frequency in Hz (or period)
  int64_t amp = 300;  // amplitude in 1/1000 of full scale
  int64_t seed = 1;
  int64_t p3 = 0;   // family specific
  int64_t t0 = 0;   // sample clock (in 48 kHz ticks) at which this source was installed
};

static inline float noise_at(uint64_t seed, int64_t n, int ch) {
  uint64_t x = seed * 0x9E3779B97F4A7C15ULL + (uint64_t)n * 0xD1342543DE82EF95ULL + (uint64_t)ch * 0xA24BAED4963EE407ULL;
  uint64_t z = splitmix64(x);
  return (float)((int64_t)(z >> 40) - (1 << 23)) / (float)(1 << 23);
}

// sample of the source at absolute index n (at rate fs) for channel ch
static inline float src_sample(const Source &s, int fs, int ch, int64_t n) {
  const double A = s.amp / 1000.0;
  const double t = (double)n / fs;
  const double f0 = s.p0 > 0 ? (double)s.p0 : 220.0;
  const double TWO_PI = 6.283185307179586;
  switch (s.fam) {
    case SRC_SILENCE: return 0.f;
    case SRC_DC: return (float)A;
    case SRC_TONES: {
      double v = sin(TWO_PI * f0 * t) + 0.5 * sin(TWO_PI * (f0 * 2.76 + 31 * ch) * t + 1.0) + 0.25 * sin(TWO_PI * (f0 * 5.1) * t);
      return (float)(A * v / 1.75);
    }
    case SRC_SWEEP: {
      double dur = 2.0, tt = fmod(t, dur), f1 = fs * 0.45;
      double ph = TWO_PI * (50.0 * tt + (f1 - 50.0) * tt * tt / (2 * dur));
      return (float)(A * sin(ph + ch));
    }
    case SRC_VOICED: {
      // harmonic speech-like bursts (p3 = burst ms, default 600) separated by pauses of half that
      double bl = (s.p3 > 0 ? s.p3 : 600) / 1000.0, per = bl * 1.5, tt = fmod(t, per);
      if (tt > bl) return 0.f;
      double env = sin(3.141592653589793 * tt / bl); env = env * env;
      double pitch = f0 * (1.0 + 0.05 * sin(TWO_PI * 3.0 * t));
      double ph = TWO_PI * pitch * t, v = 0;
      for (int h = 1; h <= 12; h++) v += sin(h * ph + 0.3 * h * h) / h;
      v += 0.05 * noise_at(s.seed, n, ch);
      return (float)(A * env * v / 2.5);
    }
    case SRC_NOISE: return (float)(A * noise_at(s.seed, n, ch));
    case SRC_CLICKS: {
      int64_t period = (int64_t)(fs / (f0 > 1000 ? 50.0 : f0 / 20.0 + 1));
      if (period < 8) period = 8;
      return (n % period) == 0 ? (float)A : ((n % period) == 1 ? (float)-A : 0.f);
    }
    case SRC_SQUARE: {
      int64_t period = (int64_t)(fs / f0); if (period < 2) period = 2;
      return ((n % period) * 2 < period) ? (float)A : (float)-A;
    }
    case SRC_STEREO: {
      // left/right level and phase difference; p3 = right level in 1/1000 of left
      double r = ch == 0 ? 1.0 : (s.p3 / 1000.0);
      return (float)(A * r * sin(TWO_PI * f0 * t + (ch ? 1.3 : 0.0)));
    }
    case SRC_NONFINITE: {
      // mostly a tone, with NaN / Inf / huge values sprinkled (float API only)
      uint64_t x = (uint64_t)s.seed ^ ((uint64_t)n * 0x9E3779B97F4A7C15ULL) ^ ((uint64_t)ch << 50);
      uint64_t z = splitmix64(x);
      int rate = s.p3 > 0 ? (int)s.p3 : 200;
      if ((int)(z % (uint64_t)rate) == 0) {
        switch ((z >> 32) % 6) {
          case 0: return NAN; case 1: return INFINITY; case 2: return -INFINITY;
          case 3: return 1e30f; case 4: return -1e30f; default: return 3.4e38f;
        }
      }
      return (float)(A * sin(TWO_PI * f0 * t));
    }
    case SRC_DENORMAL: return (noise_at(s.seed, n, ch) > 0 ? 1e-40f : -1e-41f);
    case SRC_DITHER: {  // +-1 LSB (16-bit) of dither around zero
      float v = noise_at(s.seed, n, ch);
      return v > 0.5f ? 1.f / 32768.f : (v < -0.5f ? -1.f / 32768.f : 0.f);
    }
    case SRC_STEADYVOICED: {
      // speech-like harmonic source at constant level (vibrato + a little breath noise), no envelope and no pauses
      double pitch = f0 * (1.0 + 0.05 * sin(TWO_PI * 3.0 * t));
      double ph = TWO_PI * pitch * t, v = 0;
      for (int h = 1; h <= 12; h++) v += sin(h * ph + 0.3 * h * h) / h;
      v += 0.05 * noise_at(s.seed, n, ch);
      return (float)(A * v / 2.5);
    }
    case SRC_ANTIPHASE: {
      // the steady speech-like source with the right channel in exact anti-phase (R = -L): the mid channel of a stereo coder is silent
      double pitch = f0 * (1.0 + 0.05 * sin(TWO_PI * 3.0 * t));
      double ph = TWO_PI * pitch * t, v = 0;
      for (int h = 1; h <= 12; h++) v += sin(h * ph + 0.3 * h * h) / h;
      return (float)((ch & 1 ? -1.0 : 1.0) * A * v / 2.5);
    }
    case SRC_BURSTYSTEREO: {
      // channels that have nothing in common: independent noise with a sharp 10:1 level modulation (62.5 ms period at 48 kHz) plus a
      // steady tone of a different frequency per channel - transients and inter-channel decorrelation at the same time
      double env = (n % (fs / 16)) < (fs / 160) ? 1.0 : 0.15;
      double v = env * noise_at(s.seed, n, ch) + 0.5 * sin(TWO_PI * (f0 * (1.0 + 0.29 * ch)) * t);
      return (float)(A * v / 1.5);
    }
    case SRC_ONSETS: {
      // speech-like harmonic bursts that start and stop abruptly (2 ms ramps) with digital silence in between; burst p3 ms (default 220),
      // pause 0.68 of that: whatever the packet duration, onsets fall into every frame position of a multi-frame packet
      double bl = (s.p3 > 0 ? s.p3 : 220) / 1000.0, per = bl * 1.68, tt = fmod(t, per);
      if (tt > bl) return 0.f;
      double env = std::min(1.0, std::min(tt, bl - tt) / 0.002);
      double ph = TWO_PI * f0 * (1.0 + 0.05 * sin(TWO_PI * 3.0 * t)) * t, v = 0;
      for (int h = 1; h <= 10; h++) v += sin(h * ph + 0.3 * h * h) / h;
      return (float)(A * env * v / 2.5 * (ch & 1 ? 0.8 : 1.0));
    }
    case SRC_MUSIC: {
      // chord with slow amplitude modulation + a little noise: keeps the music detector busy
      double v = 0; const double r[4] = {1.0, 1.26, 1.5, 2.0};
      for (int k = 0; k < 4; k++) v += sin(TWO_PI * f0 * r[k] * t + k + 0.7 * ch) * (0.6 + 0.4 * sin(TWO_PI * (0.7 + 0.3 * k) * t));
      v = v / 4 + 0.02 * noise_at(s.seed, n, ch);
      return (float)(A * v);
    }
  }
  return 0.f;
}

// fill interleaved float buffer for nch channels, n samples starting at absolute index pos
static inline void src_fill(const Source &s, int fs, int nch, int64_t pos, int n, float *out) {
  for (int i = 0; i < n; i++) for (int c = 0; c < nch; c++) out[i * nch + c] = src_sample(s, fs, c, pos + i);
}
