/* opsim allocator seam: included by celt/os_support.h when libopus is built with
   -DCUSTOM_SUPPORT (an existing upstream seam).  Routes opus_alloc/opus_free to
   the simulator so that allocation failure, block contents and block addresses
   are simulator-owned. */
#ifndef OPSIM_CUSTOM_SUPPORT_H
#define OPSIM_CUSTOM_SUPPORT_H
#include <stddef.h>
#define OVERRIDE_OPUS_ALLOC
#define OVERRIDE_OPUS_FREE
#ifdef __cplusplus
extern "C" {
#endif
void *opsim_alloc(size_t size);
void opsim_free(void *ptr);
#ifdef __cplusplus
}
#endif
static inline void *opus_alloc(size_t size) { return opsim_alloc(size); }
static inline void opus_free(void *ptr) { opsim_free(ptr); }
#endif
