// Simulator-owned seams: allocator (CUSTOM_SUPPORT), celt_fatal (OVERRIDE_celt_fatal),
// rand() (--wrap=rand, used by upstream FUZZING), CPU level (--wrap=opus_select_arch).
#include "core.h"
#include <stdarg.h>

AllocCtl g_alloc;
__thread Rng *g_rand_stream = nullptr;
__thread int g_arch_cap = -1;
__thread int g_arch_force = -1;
__thread const char *g_ctx = "";
__thread bool g_in_run = false;
#ifdef OPSIM_MEMTRACE
#include "threadsim.h"
void *sim_malloc(size_t n) { if (ts_current_task() >= 0) return ts_task_alloc(n); return malloc(n); }
void sim_free(void *p) { if (!p || ts_task_owns(p)) return; free(p); }
void *operator new(size_t n) { void *p = sim_malloc(n ? n : 1); if (!p) abort(); return p; }
void *operator new[](size_t n) { void *p = sim_malloc(n ? n : 1); if (!p) abort(); return p; }
void operator delete(void *p) noexcept { sim_free(p); }
void operator delete[](void *p) noexcept { sim_free(p); }
void operator delete(void *p, size_t) noexcept { sim_free(p); }
void operator delete[](void *p, size_t) noexcept { sim_free(p); }
#else
void *sim_malloc(size_t n) { return malloc(n); }
void sim_free(void *p) { free(p); }
#endif
long g_arch_calls = 0;

struct Blk { size_t size; int spacer; };
static std::map<void *, Blk> *g_live;

static void fill_block(unsigned char *p, size_t n) {
  if (g_alloc.fill >= 0 && g_alloc.fill < 256) memset(p, g_alloc.fill, n);
  else { uint64_t x = g_alloc.fill_seed ^ (uint64_t)n; for (size_t i = 0; i < n; i++) p[i] = (unsigned char)(splitmix64(x) >> 24); }
}

extern "C" void *opsim_alloc(size_t size) {
  if (!g_live) g_live = new std::map<void *, Blk>();
  long k = g_alloc.count++;
  if (k == g_alloc.fail_at) { g_alloc.failed++; return nullptr; }
  int sp = g_alloc.spacer;
  unsigned char *raw = (unsigned char *)sim_malloc(size + sp);
  if (!raw) return nullptr;
  fill_block(raw, size + sp);
  void *user = raw + sp;
  (*g_live)[user] = Blk{size, sp};
  g_alloc.live++;
  return user;
}
extern "C" void opsim_free(void *p) {
  if (!p) return;
  auto it = g_live ? g_live->find(p) : std::map<void *, Blk>::iterator();
  if (!g_live || it == g_live->end()) {  // not ours: a double free or foreign pointer
    fprintf(stderr, "opsim: free of unknown block %p\n", p);
    abort();
  }
  memset(p, 0xDD, it->second.size);     // scribble before release
  sim_free((unsigned char *)p - it->second.spacer);
  g_live->erase(it);
  g_alloc.live--;
}
void alloc_reset_run() {
  if (g_live) {
    for (auto &kv : *g_live) sim_free((unsigned char *)kv.first - kv.second.spacer);
    g_live->clear();
  }
  g_alloc = AllocCtl();
}

extern "C" __attribute__((noreturn)) void celt_fatal(const char *str, const char *file, int line) {
  const char *b = strrchr(file, '/');
  // class = file:line (stable per source site)
  char buf[512];
  snprintf(buf, sizeof buf, "%s:%d %s", b ? b + 1 : file, line, str);
  for (char *c = buf; *c; c++) if (*c == '\n') *c = ' ';
  throw Fatal{buf};
}

extern "C" int __wrap_rand(void) {
  static Rng fallback(12345);
  Rng *r = g_rand_stream ? g_rand_stream : &fallback;
  return (int)(r->next() >> 33);   // 0 .. 2^31-1
}

extern "C" int __real_opus_select_arch(void);
extern "C" int __wrap_opus_select_arch(void) {
  int a = __real_opus_select_arch();
  g_arch_calls++;
  if (g_arch_force >= 0) { static int host = -1; if (host < 0) host = host_arch(); return g_arch_force < host ? g_arch_force : host; }
  if (g_arch_cap >= 0 && a > g_arch_cap) a = g_arch_cap;
  return a;
}
int host_arch() {
  // the real detector; under FUZZING it draws from rand(): take the max over a few draws of a private stream
  Rng tmp(99), *save = g_rand_stream; g_rand_stream = &tmp;
  int m = 0; for (int i = 0; i < 64; i++) { int a = __real_opus_select_arch(); if (a > m) m = a; }
  g_rand_stream = save;
  return m;
}

std::string strf(const char *fmt, ...) {
  char buf[1024];
  va_list ap; va_start(ap, fmt); vsnprintf(buf, sizeof buf, fmt, ap); va_end(ap);
  return buf;
}

// Sanitizer defaults: classify reports by exit code; leak checking is done by our allocator's accounting.
extern "C" __attribute__((used, visibility("default"))) const char *__asan_default_options() {
  return "exitcode=77:detect_leaks=0:abort_on_error=0:allocator_may_return_null=1:detect_stack_use_after_return=0:max_malloc_fill_size=0";
}
extern "C" __attribute__((used, visibility("default"))) const char *__ubsan_default_options() {
  return "exitcode=77:halt_on_error=1:print_stacktrace=1";
}

// abort() raised inside the library during a run (SILK's own assertion macro prints and aborts; it cannot be overridden like
// celt_fatal): turned into the same kind of event as a CELT assertion so that the run ends, the worker survives and the class
// names the simulator's context. Outside a run abort() is abort().
extern "C" void __real_abort(void);
extern "C" __attribute__((noreturn)) void __wrap_abort(void) {
  if (g_in_run) throw Fatal{std::string("abort ") + g_ctx};
  __real_abort();
  for (;;) {}
}
