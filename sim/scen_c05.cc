// C05 — encoder honours the buffer limit, exact CBR size and the bitrate target (netsim `ratectl`).
#include "session.h"
#include "lockstep.h"

// long constant-settings constrained-VBR session (the long-term average clause)
static Plan gen_cvbr_long(uint64_t seed, int tier) {
  Rng r(seed ^ 0xC5B);
  Plan p; p.hdr["scenario"] = "ratectl-cvbr-long";
  int ch = (int)r.range(1, 2);
  p.ops.push_back(mkop("ENCNEW", {K_SINGLE, r.range(0, 4), ch, r.range(0, 2), 0, 0, -1, (int64_t)r.range(1, 1 << 30)}));
  p.ops.push_back(mkop("DECNEW", {r.range(0, 4), r.range(0, 1), -1, r.range(0, 2)}));
  p.ops.push_back(mkop("CTL", {OPUS_SET_VBR_REQUEST, 1}));
  p.ops.push_back(mkop("CTL", {OPUS_SET_VBR_CONSTRAINT_REQUEST, 1}));
  p.ops.push_back(mkop("CTL", {OPUS_SET_BITRATE_REQUEST, (int)r.pick({6000, 8000, 12000, 16000, 20000, 24000, 32000, 48000, 64000, 96000, 128000, (int)r.range(6000, 200000)})}));
  if (r.chance(0.5)) p.ops.push_back(mkop("CTL", {OPUS_SET_COMPLEXITY_REQUEST, r.range(0, 10)}));
  if (r.chance(0.4)) p.ops.push_back(mkop("CTL", {11002, r.pick({1000, 1001, 1002})}));
  if (r.chance(0.3)) p.ops.push_back(mkop("CTL", {OPUS_SET_SIGNAL_REQUEST, r.pick({3001, 3002})}));
  int fam = r.pick({(int)SRC_TONES, (int)SRC_SWEEP, (int)SRC_VOICED, (int)SRC_NOISE, (int)SRC_MUSIC, (int)SRC_MUSIC, (int)SRC_VOICED, (int)SRC_CLICKS});
  // one in seven: the cell in which SILK's rate control is on its own and the bound is sharp - stereo SILK-only above 24 kb/s on steady
  // tonal material (the MDCT layer's reservoir plays no part, both channels are coded, the open-loop estimate is at its worst)
  bool silk_stereo_cell = (ch == 2 && r.chance(0.3)) || (ch == 2 && getenv("OPSIM_C05_CELL"));
  if (silk_stereo_cell) {
    p.ops.push_back(mkop("CTL", {OPUS_SET_BITRATE_REQUEST, (int)r.pick({26000, 28000, 30000, 32000, 36000})}));
    p.ops.push_back(mkop("CTL", {11002, 1000}));
    p.ops.push_back(mkop("CTL", {OPUS_SET_FORCE_CHANNELS_REQUEST, 2}));
    if (r.chance(0.5)) p.ops.push_back(mkop("CTL", {OPUS_SET_SIGNAL_REQUEST, 3001}));
    fam = r.pick({(int)SRC_MUSIC, (int)SRC_TONES, (int)SRC_MUSIC});
  }
  p.ops.push_back(mkop("SRC", {fam, r.pick({110, 220, 440, 1000, 3000}), r.pick({100, 300, 500, 900}), r.range(1, 1000), r.range(200, 900)}));
  int fi = r.weighted({2, 2, 4, 8, 3, 3, 0, 0, 0});
  if (silk_stereo_cell) fi = r.pick({3, 3, 4, 5, 2});
  if (getenv("OPSIM_C05_LONGONLY") && !silk_stereo_cell) {   // calibration runs: spread evenly over durations, low target sizes well represented
    fi = (int)r.range(0, 5);
    p.ops.push_back(mkop("CTL", {OPUS_SET_BITRATE_REQUEST, (int)r.pick({6000, 8000, 10000, 12000, 16000, 20000, 24000, 32000, 40000, 48000, 64000, 96000, 128000, 192000, (int)r.range(6000, 256000)})}));
    if (r.chance(0.4)) p.ops.push_back(mkop("CTL", {11002, 1002}));
  }
  double secs = tier ? r.range(7, 15) : 6.5, t = 0;
  while (t < secs) {
    if (r.chance(0.01)) p.ops.push_back(mkop("SRC", {r.pick({(int)SRC_TONES, (int)SRC_VOICED, (int)SRC_NOISE, (int)SRC_MUSIC, (int)SRC_SILENCE}), r.pick({110, 220, 440, 3000}), r.pick({100, 300, 900}), r.range(1, 1000), r.range(200, 900)}));
    p.ops.push_back(mkop("ENC", {fi, r.pick({1276, 1500, 4000}), 0}));
    t += kFrames48[fi] / 48000.0;
  }
  return p;
}

// constrained VBR in the MDCT layer while the bitrate keeps changing: the reservoir carries the debt from one rate to the next
static Plan gen_cvbr_switch(uint64_t seed, int tier) {
  Rng r(seed ^ 0x5C17);
  Plan p; p.hdr["scenario"] = "ratectl-cvbr-switching";
  int ch = (int)r.range(1, 2);
  bool lowdelay = r.chance(0.5);
  p.ops.push_back(mkop("ENCNEW", {K_SINGLE, r.range(2, 4), ch, lowdelay ? 2 : r.range(0, 1), 0, 0, -1, (int64_t)r.range(1, 1 << 30)}));
  p.ops.push_back(mkop("DECNEW", {r.range(0, 4), r.range(0, 1), -1, r.range(0, 2)}));
  p.ops.push_back(mkop("CTL", {OPUS_SET_VBR_REQUEST, 1}));
  p.ops.push_back(mkop("CTL", {OPUS_SET_VBR_CONSTRAINT_REQUEST, 1}));
  if (!lowdelay) p.ops.push_back(mkop("CTL", {11002, 1002}));
  if (r.chance(0.4)) p.ops.push_back(mkop("CTL", {OPUS_SET_COMPLEXITY_REQUEST, r.range(0, 10)}));
  std::vector<int> rates;
  int style = (int)r.range(0, 2);
  if (style == 0) rates = {(int)r.pick({128000, 192000, 256000}), (int)r.pick({8000, 12000, 16000, 24000})};            // far apart
  else if (style == 1) rates = {(int)r.pick({32000, 48000, 64000}), (int)r.pick({16000, 24000}), (int)r.pick({96000, 128000})};
  else for (int i = 0; i < 4; i++) rates.push_back((int)r.range(8000, 256000));
  p.ops.push_back(mkop("CTL", {OPUS_SET_BITRATE_REQUEST, rates[0]}));
  int fam = r.pick({(int)SRC_BURSTYSTEREO, (int)SRC_NOISE, (int)SRC_CLICKS, (int)SRC_MUSIC, (int)SRC_ONSETS, (int)SRC_TONES, (int)SRC_VOICED});
  p.ops.push_back(mkop("SRC", {fam, r.pick({110, 220, 440, 1000, 3000}), r.pick({100, 300, 500, 900}), r.range(1, 1000), r.range(100, 900)}));
  int fi = r.weighted({2, 2, 3, 5, 0, 0, 0, 0, 0});
  double secs = tier ? r.range(7, 14) : 6.8, t = 0; size_t ri = 0; int hold = (int)r.range(3, 20), left = hold;
  while (t < secs) {
    if (--left <= 0) { ri = (ri + 1) % rates.size(); p.ops.push_back(mkop("CTL", {OPUS_SET_BITRATE_REQUEST, rates[ri]})); left = r.chance(0.3) ? (int)r.range(3, 20) : hold; }
    p.ops.push_back(mkop("ENC", {fi, r.pick({1276, 1500, 4000}), 0}));
    t += kFrames48[fi] / 48000.0;
  }
  return p;
}

// long packets (60-120 ms) at high rates into large buffers: the per-frame budgets of the repacketised path
static Plan gen_bigframe(uint64_t seed, int tier) {
  Rng r(seed ^ 0xB16F);
  Plan p; p.hdr["scenario"] = "ratectl-bigframe";
  int ch = (int)r.range(1, 2);
  p.ops.push_back(mkop("ENCNEW", {K_SINGLE, r.range(0, 4), ch, r.range(0, 2), 0, 0, -1, (int64_t)r.range(1, 1 << 30)}));
  p.ops.push_back(mkop("DECNEW", {r.range(0, 4), r.range(0, 1), -1, r.range(0, 2)}));
  int vbrmode = r.weighted({3, 3, 2});
  p.ops.push_back(mkop("CTL", {OPUS_SET_VBR_REQUEST, vbrmode == 0 ? 0 : 1}));
  p.ops.push_back(mkop("CTL", {OPUS_SET_VBR_CONSTRAINT_REQUEST, vbrmode == 1 ? 1 : 0}));
  p.ops.push_back(mkop("CTL", {OPUS_SET_BITRATE_REQUEST, r.chance(0.15) ? OPUS_BITRATE_MAX : (int)r.pick({96000, 128000, 160000, 180000, 200000, 256000, 300000, 400000, 510000, (int)r.range(64000, 600000)})}));
  if (r.chance(0.5)) p.ops.push_back(mkop("CTL", {11002, r.pick({1000, 1000, 1001, 1002})}));
  if (r.chance(0.4)) { p.ops.push_back(mkop("CTL", {OPUS_SET_DTX_REQUEST, 1})); p.ops.push_back(mkop("CTL", {OPUS_SET_COMPLEXITY_REQUEST, r.range(0, 6)})); }
  if (r.chance(0.3)) p.ops.push_back(mkop("CTL", {OPUS_SET_MAX_BANDWIDTH_REQUEST, r.pick({1101, 1102, 1103, 1104})}));
  if (r.chance(0.3)) { p.ops.push_back(mkop("CTL", {OPUS_SET_INBAND_FEC_REQUEST, r.range(1, 2)})); p.ops.push_back(mkop("CTL", {OPUS_SET_PACKET_LOSS_PERC_REQUEST, r.pick({5, 20, 50})})); }
  p.ops.push_back(mkop("SRC", {r.pick({(int)SRC_NOISE, (int)SRC_NOISE, (int)SRC_MUSIC, (int)SRC_VOICED, (int)SRC_SQUARE, (int)SRC_TONES}), r.pick({110, 440, 3000}), r.pick({150, 300, 900, 1000}), r.range(1, 1000), r.range(200, 900)}));
  int n = (int)(tier ? r.range(10, 40) : r.range(4, 14));
  for (int i = 0; i < n; i++) {
    if (r.chance(0.1)) p.ops.push_back(mkop("CTL", {OPUS_SET_BITRATE_REQUEST, (int)r.range(64000, 600000)}));
    p.ops.push_back(mkop("ENC", {r.pick({5, 6, 7, 8, 8, 8}), r.pick({4000, 4000, 3828, 3684, 3000, 2600, 2553, 2552, 2000, 1500, 1276}), r.range(0, 2)}));
  }
  return p;
}

static Plan gen(uint64_t seed, int tier) {
  if ((seed >> 8) % 10 == 0 || getenv("OPSIM_C05_LONGONLY")) return gen_cvbr_long(seed, tier);
  if ((seed >> 8) % 10 == 1) return gen_bigframe(seed, tier);
  if ((seed >> 8) % 10 == 2 || getenv("OPSIM_C05_SWITCHONLY")) return gen_cvbr_switch(seed, tier);
  Plan p = gen_lockstep(seed, tier, 1);
  // rate-control emphasis: make sure CBR / CVBR and bitrate changes are well represented
  Rng r(seed ^ 0xC05);
  std::vector<Op> out;
  bool first_enc = true;
  for (auto &op : p.ops) {
    if (op.k == "ENC" && first_enc) {
      first_enc = false;
      int mode = r.weighted({5, 3, 2});   // CBR, CVBR, VBR
      out.push_back(mkop("CTL", {OPUS_SET_VBR_REQUEST, mode == 0 ? 0 : 1}));
      out.push_back(mkop("CTL", {OPUS_SET_VBR_CONSTRAINT_REQUEST, mode == 1 ? 1 : 0}));
      if (r.chance(0.8)) out.push_back(mkop("CTL", {OPUS_SET_BITRATE_REQUEST, r.chance(0.15) ? OPUS_BITRATE_MAX : r.chance(0.1) ? OPUS_AUTO : (int)r.pick({500, 501, 999, 6000, 8000, 12000, 16000, 24000, 32000, 64000, 96000, 128000, 256000, 510000, 512000, (int)r.range(500, 512000), (int)r.range(500, 60000)})}));
    }
    if (op.k == "ENC" && r.chance(0.08)) out.push_back(mkop("CTL", {OPUS_SET_BITRATE_REQUEST, r.chance(0.1) ? OPUS_BITRATE_MAX : (int)r.range(500, r.chance(0.5) ? 64000 : 512000)}));
    if (op.k == "ENC" && r.chance(0.03)) out.push_back(mkop("CTL", {OPUS_SET_VBR_REQUEST, (int)r.range(0, 1)}));
    out.push_back(op);
  }
  p.ops = out;
  return p;
}

static void exec(const Plan &p, Run &run) {
  LockstepExec x(run, "C05");
  x.check_rate = true;
  x.run_plan(p);
}

REGISTER_SCENARIO(C05, "ratectl", gen, exec);
