// Independent model of RFC 6716 section 3 / Appendix B packet framing (written from the RFC text),
// plus a packet builder. Component of the C01 C02 C05 C07 C16 oracles.
#pragma once
#include "core.h"

typedef std::vector<unsigned char> Bytes;

struct Framed {
  bool ok = false;
  unsigned char toc = 0;
  int nframes = 0;
  int off[48], len[48];
  int payload_offset = 0;
  int pad_off = 0, pad_len = 0;   // padding *data* (after the padding length bytes)
  int consumed = 0;               // bytes of the packet (self-delimited: where it ends)
  int code() const { return toc & 3; }
};

// frame duration in 48 kHz samples for a TOC byte
static inline int toc_frame48(unsigned char toc) {
  int cfg = toc >> 3;
  if (cfg < 12) { static const int d[4] = {480, 960, 1920, 2880}; return d[cfg & 3]; }
  if (cfg < 16) return (cfg & 1) ? 960 : 480;
  static const int d[4] = {120, 240, 480, 960};
  return d[cfg & 3];
}
static inline int toc_mode(unsigned char toc) { int cfg = toc >> 3; return cfg < 12 ? 0 : (cfg < 16 ? 1 : 2); }  // 0 SILK 1 hybrid 2 CELT
// bandwidth as OPUS_BANDWIDTH_* (1101..1105)
static inline int toc_bandwidth(unsigned char toc) {
  int cfg = toc >> 3;
  if (cfg < 12) return 1101 + (cfg >> 2);
  if (cfg < 16) return cfg < 14 ? 1104 : 1105;
  int b = (cfg - 16) >> 2;  // 0 NB 1 WB 2 SWB 3 FB
  return b == 0 ? 1101 : 1102 + b;
}
static inline int toc_channels(unsigned char toc) { return (toc & 4) ? 2 : 1; }

// read a one- or two-byte frame length; returns bytes used (0 = not enough data)
static inline int model_read_len(const unsigned char *d, int avail, int *out) {
  if (avail < 1) return 0;
  if (d[0] < 252) { *out = d[0]; return 1; }
  if (avail < 2) return 0;
  *out = 4 * d[1] + d[0];
  return 2;
}

static inline Framed model_parse(const unsigned char *d, int n, bool selfdelim) {
  Framed f;
  if (n < 1) return f;                                             // R1
  f.toc = d[0];
  int pos = 1, rem = n - 1, M = 0, pad = 0;
  bool cbr = true;
  int sizes[48];
  switch (d[0] & 3) {
    case 0: M = 1; break;
    case 1:
      M = 2;
      if (!selfdelim) { if (rem & 1) return f; sizes[0] = rem / 2; }   // R3
      break;
    case 2: {
      M = 2; cbr = false;
      int u = model_read_len(d + pos, rem, &sizes[0]);
      if (!u) return f;
      pos += u; rem -= u;
      if (sizes[0] > rem) return f;                                 // R4
      break;
    }
    default: {
      if (rem < 1) return f;                                        // R5: count byte present
      int cb = d[pos++]; rem--;
      M = cb & 0x3F; cbr = !(cb & 0x80);
      if (M < 1 || toc_frame48(d[0]) * M > 5760) return f;           // R5
      if (cb & 0x40) {
        for (;;) {
          if (rem < 1) return f;
          int p = d[pos++]; rem--;
          pad += p == 255 ? 254 : p;
          if (p != 255) break;
        }
        if (pad > rem) return f;
        rem -= pad;
      }
      if (!cbr) {
        for (int i = 0; i < M - 1; i++) {
          int u = model_read_len(d + pos, rem, &sizes[i]);
          if (!u) return f;
          pos += u; rem -= u;
          if (sizes[i] > rem) return f;                              // R7
        }
      }
      break;
    }
  }
  // sizes of the remaining frames
  if (selfdelim) {
    int last;
    int u = model_read_len(d + pos, rem, &last);
    if (!u) return f;
    pos += u; rem -= u;
    if (cbr) {
      if ((long)last * M > rem) return f;
      for (int i = 0; i < M; i++) sizes[i] = last;
    } else {
      long sum = last; for (int i = 0; i < M - 1; i++) sum += sizes[i];
      if (sum > rem) return f;
      sizes[M - 1] = last;
    }
  } else if (cbr) {
    if ((d[0] & 3) != 1) {
      if (rem % M) return f;                                         // R6
      for (int i = 0; i < M; i++) sizes[i] = rem / M;
    } else sizes[1] = sizes[0];
  } else {
    long sum = 0; for (int i = 0; i < M - 1; i++) sum += sizes[i];
    if (sum > rem) return f;
    sizes[M - 1] = rem - (int)sum;
  }
  for (int i = 0; i < M; i++) if (sizes[i] > 1275) return f;          // R2
  f.payload_offset = pos;
  for (int i = 0; i < M; i++) { f.off[i] = pos; f.len[i] = sizes[i]; pos += sizes[i]; }
  f.nframes = M;
  f.pad_off = pos; f.pad_len = pad;
  f.consumed = selfdelim ? pos + pad : n;
  if (f.consumed > n) return f;
  f.ok = true;
  return f;
}

static inline void model_put_len(Bytes &o, int len) {
  if (len < 252) o.push_back((unsigned char)len);
  else { int b0 = 252 + (len & 3); o.push_back((unsigned char)b0); o.push_back((unsigned char)((len - b0) >> 2)); }
}

// Build a packet. code: -1 = smallest natural code; 3 forces code 3. vbr only matters for code 3.
// padding: nullptr = none; else the padding data bytes (length bytes are generated).
static inline Bytes model_build(unsigned char toc_cfg, const std::vector<Bytes> &frames, int code, bool vbr,
                                const Bytes *padding, bool selfdelim) {
  Bytes o;
  int M = (int)frames.size();
  bool equal = true;
  for (int i = 1; i < M; i++) if (frames[i].size() != frames[0].size()) equal = false;
  if (code < 0) {
    if (padding) code = 3;
    else if (M == 1) code = 0;
    else if (M == 2) code = equal ? 1 : 2;
    else code = 3;
  }
  if (code == 3 && !equal) vbr = true;
  o.push_back((unsigned char)((toc_cfg & 0xFC) | code));
  if (code == 3) {
    o.push_back((unsigned char)((vbr ? 0x80 : 0) | (padding ? 0x40 : 0) | M));
    if (padding) {
      size_t k = padding->size();
      while (k >= 254 + 1 && k >= 255) { o.push_back(255); k -= 254; }
      // k in 0..254 now (255 would have been reduced to 1)
      o.push_back((unsigned char)k);
    }
    if (vbr) for (int i = 0; i < M - 1; i++) model_put_len(o, (int)frames[i].size());
  } else if (code == 2) {
    model_put_len(o, (int)frames[0].size());
  }
  if (selfdelim) model_put_len(o, (int)frames[M - 1].size());
  for (auto &f : frames) o.insert(o.end(), f.begin(), f.end());
  if (code == 3 && padding) o.insert(o.end(), padding->begin(), padding->end());
  return o;
}
