// Executor + oracles shared by C02 (lock-step validity) and C05 (sizes / rate control).
#pragma once
#include "session.h"

// tolerances per bucket of target bytes per frame: <5, <10, <20, <40, <80, >=80  (see calib/thresholds.json)
#define CVBR_TOL_CELT 0.65, 0.42, 0.22, 0.12, 0.06, 0.05
#define CVBR_TOL_SILK 2.40, 2.40, 2.40, 2.40, 2.40, 2.40
#define CVBR_TOL_SWITCHING 0.16  /* worst 1.080 over 16 499 switching sessions */
// SILK / hybrid cells: bitrate <= 12k, <= 16k, <= 24k, > 24k
#define CVBR_SILK_NOHYB_T 2.60, 0.90, 0.42, 0.20
#define CVBR_SILK_NOHYB_O 2.60, 0.66, 0.16, 0.10
#define CVBR_SILK_HYB_T   2.60, 1.48, 1.48, 1.48
#define CVBR_SILK_HYB_O   2.60, 0.50, 0.47, 0.47
struct LockstepExec {
  Run &run; std::string prop;
  Session S;
  bool check_rate = false;       // C05 oracles
  Bytes last_pkt, prev_pkt;      // the two most recent packets (middlebox ops of other scenarios)
  // settings model (the subset the oracles need)
  int m_bitrate = OPUS_AUTO, m_vbr = 1, m_cvbr = 1, m_dtx = 0;
  // multistream CBR: size of previous non-DTX packet under unchanged settings
  long ms_prev_size = -1; int ms_prev_frame = -1; int ms_prev_max = -1;
  // constrained-VBR accounting over constant-settings segments
  double seg_bits = 0, seg_secs = 0; long seg_frames = 0;
  LockstepExec(Run &r, const char *p) : run(r), prop(p) {}

  int seg_mode_mask = 0;
  std::map<int, int> m_set;      // last applied value per request (calibration covariates, CVBR preconditions)
  int mset(int req, int dflt) const { auto it = m_set.find(req); return it == m_set.end() ? dflt : it->second; }
  void settings_changed() { cvbr_close(); ms_prev_size = -1; seg_bits = 0; seg_secs = 0; seg_frames = 0; seg_mode_mask = 0; seg_warm = 0; seg_tonal_secs = 0; }
  double seg_warm = 0, seg_tonal_secs = 0;
  // constrained VBR across bitrate changes (MDCT layer only, where a true bit reservoir carries the debt from one rate to the next):
  // produced bits against the sum of the per-frame targets over a stretch in which only the bitrate changes
  double cum_bits = 0, cum_target_bits = 0, cum_secs = 0, cum_warm = 0; long cum_switches = 0; bool cum_celt_only = true;
  void cum_reset() { cum_close(); cum_bits = cum_target_bits = cum_secs = cum_warm = 0; cum_switches = 0; cum_celt_only = true; }
  void cum_close() {
    if (!check_rate || cum_secs < 5.0 || cum_switches < 4 || !cum_celt_only || cum_target_bits <= 0) return;
    double ratio = cum_bits / cum_target_bits;
    run.count("cvbr_switching_checked");
    long milli = (long)(ratio * 1000); if (run.stat["max:cvbr_switching_ratio_milli"] < milli) run.stat["max:cvbr_switching_ratio_milli"] = milli;
    if (getenv("OPSIM_CALIB")) fprintf(stderr, "CVBRCUM ratio=%.4f secs=%.2f switches=%ld mean_target=%.0f fs=%d ch=%d\n", ratio, cum_secs, cum_switches, cum_target_bits / cum_secs, S.enc.L.fs, S.enc.L.ch);
    else if (ratio > 1.0 + CVBR_TOL_SWITCHING)
      REPORT(run, prop, "cvbr_rate_exceeded_across_bitrate_changes_celt", "%.0f bits produced for %.0f requested over %.1f s and %ld bitrate changes (ratio %.3f > %.3f)", cum_bits, cum_target_bits, cum_secs, cum_switches, ratio, 1.0 + CVBR_TOL_SWITCHING);
  }
  // constrained VBR: long-term mean rate over a constant-settings segment (>= 5 s after 1 s warm-up)
  void cvbr_close() {
    if (!check_rate || seg_secs < 5.0 || !S.enc.alive()) return;
    double ratio = seg_bits / seg_secs / (double)m_bitrate;
    const char *fam = seg_mode_mask == 4 ? "celt" : "silkhyb";   // any SILK / hybrid packet in the segment -> SILK's looser rate control applies
    double bpf = m_bitrate * (seg_secs / seg_frames) / 8;     // target bytes per frame
    const char *bucket = bpf < 5 ? "lt5" : bpf < 10 ? "lt10" : bpf < 20 ? "lt20" : bpf < 40 ? "lt40" : bpf < 80 ? "lt80" : "ge80";
    run.count(std::string("cvbr_segments_") + fam);
    long milli = (long)(ratio * 1000);
    std::string k = std::string("max:cvbr_ratio_milli_") + fam + "_" + bucket;
    if (run.stat[k] < milli) run.stat[k] = milli;
    if (getenv("OPSIM_CALIB")) fprintf(stderr, "CVBRSEG %s ratio=%.4f bitrate=%d fs=%d ch=%d frames=%ld secs=%.2f bytes_per_frame=%.1f mask=%d tonal=%.2f app=%d src=%d amp=%lld cplx=%d force=%d sig=%d fec=%d loss=%d bw=%d maxbw=%d fch=%d\n", fam, ratio, m_bitrate, S.enc.L.fs, S.enc.L.ch, seg_frames, seg_secs, bpf,
        seg_mode_mask, seg_tonal_secs / seg_secs, S.enc.L.app, S.src.fam, (long long)S.src.amp, mset(OPUS_SET_COMPLEXITY_REQUEST, -1), mset(11002, -1), mset(OPUS_SET_SIGNAL_REQUEST, -1), mset(OPUS_SET_INBAND_FEC_REQUEST, -1), mset(OPUS_SET_PACKET_LOSS_PERC_REQUEST, -1), mset(OPUS_SET_BANDWIDTH_REQUEST, -1), mset(OPUS_SET_MAX_BANDWIDTH_REQUEST, -1), mset(OPUS_SET_FORCE_CHANNELS_REQUEST, -1));
    bool silkfam = seg_mode_mask != 4;
    double tonal = seg_tonal_secs / seg_secs;
    double tol = silkfam ? cvbr_tolerance_silk(m_bitrate, (seg_mode_mask & 2) != 0, tonal) : cvbr_tolerance(fam, bpf);
    run.count("cvbr_checked");
    if (silkfam && m_bitrate > 16000 && tonal < 0.5) run.count("cvbr_checked_silk_sharp");
    if (ratio > 1.0 + tol)
      REPORT(run, prop, std::string("cvbr_longterm_rate_exceeded_") + fam, "mean %.0f b/s over %.1f s vs target %d (ratio %.3f > %.3f, %.1f target bytes/frame)", seg_bits / seg_secs, seg_secs, m_bitrate, ratio, 1.0 + tol, bpf);
  }
  // calibrated on the unchanged tree (calib/thresholds.json, C05.cvbr): tolerance = at least twice the worst excess observed per
  // (mode family, target bytes per frame) bucket. CELT has a true bit reservoir; SILK / hybrid only steer towards the target.
  static double cvbr_tolerance(const char *fam, double bpf) {
    static const double celt[6] = {CVBR_TOL_CELT}, silk[6] = {CVBR_TOL_SILK};
    int b = bpf < 5 ? 0 : bpf < 10 ? 1 : bpf < 20 ? 2 : bpf < 40 ? 3 : bpf < 80 ? 4 : 5;
    return !strcmp(fam, "celt") ? celt[b] : silk[b];
  }
  // SILK / hybrid segments: SILK only steers towards the target, and how far it stays above it depends on the rate (below ~12 kb/s
  // the floor of the side information dominates) and on the material (steady tonal / periodic input, on which its open-loop rate
  // estimate is at its worst; hybrid adds the MDCT layer's share). Tolerance per (bitrate band, any hybrid packet, mostly tonal) cell,
  // >= 2x the worst excess observed in that cell (calib/thresholds.json, C05.cvbr.silkhyb_cells).
  static double cvbr_tolerance_silk(int bitrate, bool hyb, double tonal) {
    static const double nohyb_T[4] = {CVBR_SILK_NOHYB_T}, nohyb_o[4] = {CVBR_SILK_NOHYB_O}, hyb_T[4] = {CVBR_SILK_HYB_T}, hyb_o[4] = {CVBR_SILK_HYB_O};
    int b = bitrate <= 12000 ? 0 : bitrate <= 16000 ? 1 : bitrate <= 24000 ? 2 : 3;
    bool T = tonal >= 0.5;
    return hyb ? (T ? hyb_T[b] : hyb_o[b]) : (T ? nohyb_T[b] : nohyb_o[b]);
  }
  void op_ctl(const Op &op) {
    if (!S.enc.alive()) return;
    int req = (int)op.arg(0), val = (int)op.arg(1);
    int r = S.enc.set(req, val);
    run.ev((uint64_t)r); run.sg(mix64(req, (uint64_t)(r == OPUS_OK)));
    if (r == OPUS_INTERNAL_ERROR) REPORT(run, prop, "ctl_internal_error", "request %d value %d", req, val);
    if (r != OPUS_OK) { run.count("ctl_rejected"); return; }
    run.count("ctl_applied");
    if (S.frames_encoded > 0) run.fired = true;
    settings_changed();
    if (req == OPUS_SET_BITRATE_REQUEST && val > 0) { if (cum_secs > 0 || cum_warm > 0) cum_switches++; } else cum_reset();
    m_set[req] = val;
    switch (req) {
      case OPUS_SET_BITRATE_REQUEST: {
        int ch = S.enc.L.ch;
        if (val != OPUS_AUTO && val != OPUS_BITRATE_MAX) { if (val < 500) val = 500; if (val > 300000 * ch) val = 300000 * ch; }
        m_bitrate = val; break;
      }
      case OPUS_SET_VBR_REQUEST: m_vbr = val; break;
      case OPUS_SET_VBR_CONSTRAINT_REQUEST: m_cvbr = val; break;
      case OPUS_SET_DTX_REQUEST: m_dtx = val; break;
      case OPUS_SET_EXPERT_FRAME_DURATION_REQUEST: S.expert_dur = val; break;
    }
  }

  void op_enc(const Op &op) {
    if (!S.enc.alive()) return;
    const Layout &L = S.enc.L;
    int fi = (int)op.arg(0), max_bytes = (int)op.arg(1), fmt = (int)(((op.arg(2) % 3) + 3) % 3);
    int frame_size;
    if (fi >= 0 && fi < 9) frame_size = (int)((int64_t)kFrames48[fi] * L.fs / 48000);
    else if (fi == 9) frame_size = L.fs / 400 + 1;          // not a legal duration
    else if (fi == 10) frame_size = L.fs / 400 - 1;         // too short
    else if (fi == 11) frame_size = 0;
    else frame_size = 3 * L.fs / 400;                       // 7.5 ms
    if (S.src.fam == SRC_NONFINITE) fmt = FMT_F32;
    int expect = S.expected_frame(frame_size);
    // (a buffer size of -1000 - k stands for "the smallest buffer this object must accept for this frame, plus k bytes": the tight
    //  region right above the documented minimum, whatever the number of streams)
    if (max_bytes <= -1000) {
      bool h = expect > 0 && expect * 10 == L.fs;
      long smallest = L.kind == K_SINGLE ? (h ? 2 : 1) : 2L * L.streams - 1 + (h ? L.streams : 0);
      max_bytes = (int)(smallest + (-1000 - (long)max_bytes)); run.count("enc_buffer_just_above_minimum");
      if (L.kind != K_SINGLE && L.streams >= 8) { run.count("enc_buffer_just_above_minimum_8plus_streams"); if (h) run.count("enc_buffer_just_above_minimum_8plus_streams_100ms"); }
    }
    std::vector<float> pcm((size_t)(frame_size > 0 ? frame_size : 0) * L.ch);
    src_fill(S.src, L.fs, L.ch, S.pos, frame_size > 0 ? frame_size : 0, pcm.data());
    Bytes pkt; bool canary = true;
    int ret = S.enc.encode(pcm.data(), frame_size, max_bytes, fmt, pkt, &canary);
    run.ev((uint64_t)ret); run.evb(pkt.data(), pkt.size());
    if (!canary) REPORT(run, prop, "enc_wrote_past_max_data_bytes", "max=%d ret=%d", max_bytes, ret);
    if (ret == OPUS_INTERNAL_ERROR) REPORT(run, prop, "enc_internal_error", "frame=%d max=%d fmt=%d", frame_size, max_bytes, fmt);
    if (ret == 0 || ret > max_bytes) REPORT(run, prop, "enc_bad_return", "ret=%d max=%d", ret, max_bytes);
    bool valid_args = expect > 0 && max_bytes >= 1;
    if (!valid_args) {
      if (ret >= 0) REPORT(run, prop, "enc_accepted_invalid_args", "frame=%d max=%d ret=%d", frame_size, max_bytes, ret);
      if (ret != OPUS_BAD_ARG && ret != OPUS_BUFFER_TOO_SMALL) REPORT(run, prop, "enc_undocumented_error", "ret=%d", ret);
      run.count("enc_invalid_args"); run.sgs("encbad");
      return;
    }
    // minimum space that must be accepted
    bool is100 = expect * 10 == L.fs;
    bool must_succeed = L.kind == K_SINGLE ? (max_bytes >= 2 || !is100)
                                           : max_bytes >= 2 * L.streams - 1 + (is100 ? L.streams : 0);
    if (ret < 0) {
      if (must_succeed)
        REPORT(run, prop, strf("enc_failed_with_valid_args_%d", ret), "frame=%d max=%d streams=%d", frame_size, max_bytes, L.streams);
      if (ret != OPUS_BUFFER_TOO_SMALL && ret != OPUS_BAD_ARG) REPORT(run, prop, "enc_undocumented_error", "ret=%d", ret);
      run.count("enc_refused"); run.sgs("encrefused");
      return;
    }
    run.api_ok++;
    S.frames_encoded++;
    prev_pkt.swap(last_pkt); last_pkt = pkt;
    std::string bad = check_packet_valid(S, pkt, expect, run);
    if (!bad.empty()) REPORT(run, prop, bad, "frame=%d max=%d ret=%d toc=%02x", frame_size, max_bytes, ret, pkt[0]);
    opus_uint32 erange = S.enc.final_range();
    run.ev(erange);
    // ---- probes / signature
    unsigned char toc = pkt[0];
    int mode = toc_mode(toc), bw = toc_bandwidth(toc), sch = toc_channels(toc);
    static const char *mn[3] = {"mode_silk", "mode_hybrid", "mode_celt"};
    run.count(mn[mode]);
    if (S.last_mode >= 0 && S.last_mode != mode) { run.count("mode_transition"); }
    if (S.last_bw >= 0 && S.last_bw != bw) run.count("bw_transition");
    if (S.last_ch >= 0 && S.last_ch != sch) run.count("ch_transition");
    S.last_mode = mode; S.last_bw = bw; S.last_ch = sch;
    if (ret <= 2) run.count("tiny_packet");
    if ((toc & 3) == 3) run.count("code3_packet");
    if (max_bytes <= 4) run.count("mtu_le4");
    run.sg(mix64(mix64(toc >> 2, fi), (uint64_t)(ret <= 2) + 2 * (max_bytes < 10)));
    run.sim_samples48 += (long)expect * 48000 / L.fs;

    // ---- lock-step decoding on every replica
    // (C05 only speaks about packets produced under a capacity fault - "a too-small buffer yields ... never a corrupt one": the decode
    //  oracle is judged there when the buffer was tight; every packet is still decoded so that the replicas stay in step)
    bool judge_decode = !check_rate || max_bytes <= 64 || ret + 2 >= max_bytes;
    int units = expect * 400 / L.fs;   // 2.5 ms units
    for (size_t i = 0; i < S.decs.size(); i++) {
      DecNode &d = *S.decs[i];
      int out = units * d.fs / 400;
      uint64_t rh = 0; bool can = true, fin = true;
      int dr = d.decode(pkt.data(), (int)pkt.size(), out, 0, S.dec_fmt[i], nullptr, &rh, &can, &fin);
      run.ev((uint64_t)dr); run.ev(rh);
      opus_uint32 drange = d.final_range();
      run.api_ok++;
      if (!judge_decode) continue;
      if (dr != out) REPORT(run, prop, "dec_sample_count_mismatch", "replica %zu fs=%d ch=%d got %d want %d (toc %02x len %d)", i, d.fs, d.ch, dr, out, toc, ret);
      if (drange != erange) REPORT(run, prop, "final_range_mismatch", "replica %zu fs=%d ch=%d enc=%08x dec=%08x toc=%02x len=%d", i, d.fs, d.ch, erange, drange, toc, ret);
      (void)can; (void)fin;   // buffer overruns and non-finite samples on the decoder side are C01's subject (ASan still guards the exact-size block)
    }
    if (check_rate) {
      rate_oracle(pkt, ret, expect, max_bytes);
      if (L.kind == K_SINGLE && m_vbr && m_cvbr && m_bitrate > 0 && max_bytes >= 1276) {
        double dur = (double)expect / L.fs;
        if (seg_warm < 1.0) seg_warm += dur;
        else {
          seg_bits += 8.0 * ret; seg_secs += dur; seg_frames++; seg_mode_mask |= 1 << mode;
          // steady tonal / periodic material: SILK's open-loop rate estimate is at its worst there
          int f = S.src.fam; bool plain = f == SRC_SILENCE || f == SRC_VOICED || f == SRC_NOISE || f == SRC_CLICKS || f == SRC_BURSTYSTEREO || f == SRC_ONSETS;
          if (!plain) seg_tonal_secs += dur;
        }
      } else if (seg_secs > 0 || seg_warm > 0) settings_changed();
      if (L.kind == K_SINGLE && m_vbr && m_cvbr && m_bitrate > 0 && max_bytes >= 1276) {
        double dur = (double)expect / L.fs;
        if (cum_warm < 1.0) cum_warm += dur;
        else { cum_bits += 8.0 * ret; cum_target_bits += (double)m_bitrate * dur; cum_secs += dur; if (mode != 2) cum_celt_only = false; }
      } else if (cum_secs > 0 || cum_warm > 0) cum_reset();
    }
    S.pos += expect; S.t48 += (int64_t)expect * 48000 / L.fs;
  }

  // C05: exact CBR size, BITRATE_MAX fills the buffer, multistream CBR constancy, CVBR long-term average
  void rate_oracle(const Bytes &pkt, int ret, int frame, int max_bytes) {
    const Layout &L = S.enc.L;
    bool dtxpkt = ret <= 2 && m_dtx;
    if (L.kind == K_SINGLE) {
      if (!m_vbr && !dtxpkt) {
        Framed f = model_parse(pkt.data(), (int)pkt.size(), false);
        long want;
        double x;
        if (m_bitrate == OPUS_BITRATE_MAX) {
          want = f.nframes > 1 ? max_bytes : std::min(max_bytes, 1276);
          x = (double)want;
        } else {
          long b = m_bitrate == OPUS_AUTO ? (60L * L.fs / frame + (long)L.fs * L.ch) : m_bitrate;
          x = (double)b * frame / (8.0 * L.fs);
          long cap = std::min(max_bytes, 1276);
          if (x > cap) x = cap;
          if (x < 1) x = 1;
          want = lround(x);
        }
        run.count("cbr_checked");
        if (ret != want && fabs(ret - x) > 0.5 + 1.0 / 12 + 1e-9)
          REPORT(run, prop, "cbr_size_wrong", "ret=%d want=%ld (x=%.3f) bitrate=%d frame=%d fs=%d max=%d nframes=%d", ret, want, x, m_bitrate, frame, L.fs, max_bytes, f.nframes);
        if (m_bitrate == OPUS_BITRATE_MAX) run.count("cbr_max_fill");
      }
    } else {
      if (!m_vbr && !dtxpkt && m_bitrate != OPUS_AUTO) {
        if (ms_prev_size >= 0 && ms_prev_frame == frame && ms_prev_max == max_bytes && !m_dtx) {
          run.count("ms_cbr_checked");
          if (ms_prev_size != ret) REPORT(run, prop, "ms_cbr_size_varies", "prev=%ld now=%d frame=%d max=%d", ms_prev_size, ret, frame, max_bytes);
        }
        ms_prev_size = ret; ms_prev_frame = frame; ms_prev_max = max_bytes;
      } else ms_prev_size = -1;
      // exact size of a multistream CBR packet with an explicit bitrate: the requested bytes per packet (floor or round of
      // bitrate x duration / 8), at least the smallest packet the streams can form (2 bytes per stream, 3 at 100 ms, minus one),
      // at most the buffer; with OPUS_BITRATE_MAX the buffer is filled
      if (!m_vbr && !m_dtx && m_bitrate != OPUS_AUTO && ret > 0) {
        long smallest = 2L * L.streams - 1 + (L.fs / frame == 10 && L.fs % frame == 0 ? L.streams : 0);
        long eff = std::min(300000L * L.ch, std::max(500L * L.ch, (long)m_bitrate));   // documented clamp of the multistream bitrate request
        double x = m_bitrate == OPUS_BITRATE_MAX ? (double)max_bytes : (double)eff * frame / (8.0 * L.fs);
        if (x < smallest) x = (double)smallest;
        if (x > max_bytes) x = (double)max_bytes;
        run.count("ms_cbr_exact_checked");
        if (getenv("OPSIM_CALIB")) fprintf(stderr, "C05MSCBR d=%.3f ret=%d x=%.3f streams=%d frame=%d fs=%d max=%d br=%d\n", ret - x, ret, x, L.streams, frame, L.fs, max_bytes, m_bitrate);
        else if (!(ret > x - 1 - 1e-9 && ret <= x + 0.5 + 1e-9))
          REPORT(run, prop, "ms_cbr_size_wrong", "ret=%d want %.3f (floor or round) bitrate=%d frame=%d fs=%d max=%d streams=%d", ret, x, m_bitrate, frame, L.fs, max_bytes, L.streams);
      }
    }
  }

  bool do_op(const Op &op) {
    if (op.k == "ENCNEW") { cum_reset(); S.op_encnew(op, run); settings_changed(); m_bitrate = OPUS_AUTO; m_vbr = 1; m_cvbr = 1; m_dtx = 0; m_set.clear(); }
    else if (op.k == "DECNEW") S.op_decnew(op, run);
    else if (op.k == "SRC") S.op_src(op);
    else if (op.k == "CTL") op_ctl(op);
    else if (op.k == "ENC") op_enc(op);
    else return false;
    return true;
  }
  void run_plan(const Plan &p) {
    for (size_t i = 0; i < p.ops.size(); i++) { run.cur_op = (int)i; do_op(p.ops[i]); }
    cvbr_close(); cum_close();
  }
};

Plan gen_lockstep(uint64_t seed, int tier, int flavour);
