/* C shim over libopus internals that the simulator drives (extensions API, parse_impl,
   out_range_impl). Compiled as C against the real private headers with the variant's own
   defines, so struct layouts always follow the tree under test. */
#ifndef OPSIM_SHIM_H
#define OPSIM_SHIM_H
#ifdef __cplusplus
extern "C" {
#endif
struct OpusRepacketizer;
typedef struct { int id; int frame; const unsigned char *data; int len; } opsim_ext;

int opsim_ext_parse(const unsigned char *data, int len, opsim_ext *out, int *nb, int nb_frames);
int opsim_ext_parse_ext(const unsigned char *data, int len, opsim_ext *out, int *nb, const int *nb_frame_exts, int nb_frames);
int opsim_ext_generate(unsigned char *data, int len, const opsim_ext *exts, int nb, int nb_frames, int pad);
int opsim_ext_count(const unsigned char *data, int len, int nb_frames);
int opsim_ext_count_ext(const unsigned char *data, int len, int *nb_frame_exts, int nb_frames);
/* iterate with the iterator API; frame_max<0 = no limit. returns count or negative error */
int opsim_ext_iterate(const unsigned char *data, int len, int nb_frames, int frame_max, opsim_ext *out, int max_out);
int opsim_ext_find(const unsigned char *data, int len, int nb_frames, int id, opsim_ext *out);
int opsim_rp_out_range_impl(struct OpusRepacketizer *rp, int begin, int end, unsigned char *data, int maxlen,
                            int self_delimited, int pad, const opsim_ext *exts, int nb);
int opsim_parse_impl(const unsigned char *data, int len, int self_delimited, unsigned char *toc,
                     int offs[48], int sizes[48], int *payload_offset, int *packet_offset,
                     int *padding_off, int *padding_len);
int opsim_silk_lbrr_flags(const unsigned char *pkt, int len, int *mid, int *side);
int opsim_force_mode_request(void);
int opsim_mode_const(int which); /* 0 SILK_ONLY 1 HYBRID 2 CELT_ONLY */
int opsim_voice_ratio_request(void);
#ifdef __cplusplus
}
#endif
#endif
