#ifdef HAVE_CONFIG_H
#include "config.h"
#endif
#include "opus_private.h"
#include "shim.h"
#include "entdec.h"
#include <stdlib.h>
extern const unsigned char * const silk_LBRR_flags_iCDF_ptr[2];

static opus_extension_data *to_lib(const opsim_ext *e, int nb) {
  opus_extension_data *x = (opus_extension_data *)malloc(sizeof(*x) * (nb > 0 ? nb : 1));
  int i;
  for (i = 0; i < nb; i++) { x[i].id = e[i].id; x[i].frame = e[i].frame; x[i].data = e[i].data; x[i].len = e[i].len; }
  return x;
}
static void from_lib(const opus_extension_data *x, opsim_ext *e, int nb) {
  int i;
  for (i = 0; i < nb; i++) { e[i].id = x[i].id; e[i].frame = x[i].frame; e[i].data = x[i].data; e[i].len = x[i].len; }
}
int opsim_ext_parse(const unsigned char *data, int len, opsim_ext *out, int *nb, int nb_frames) {
  int cap = *nb; opus_int32 n = cap;
  opus_extension_data *x = (opus_extension_data *)malloc(sizeof(*x) * (cap > 0 ? cap : 1));
  int r = opus_packet_extensions_parse(data, len, x, &n, nb_frames);
  if (r == 0 && n <= cap) from_lib(x, out, n);
  *nb = n; free(x); return r;
}
int opsim_ext_parse_ext(const unsigned char *data, int len, opsim_ext *out, int *nb, const int *nb_frame_exts, int nb_frames) {
  int cap = *nb; opus_int32 n = cap;
  opus_extension_data *x = (opus_extension_data *)malloc(sizeof(*x) * (cap > 0 ? cap : 1));
  int r = opus_packet_extensions_parse_ext(data, len, x, &n, (const opus_int32 *)nb_frame_exts, nb_frames);
  if (r == 0 && n <= cap) from_lib(x, out, n);
  *nb = n; free(x); return r;
}
int opsim_ext_generate(unsigned char *data, int len, const opsim_ext *exts, int nb, int nb_frames, int pad) {
  opus_extension_data *x = to_lib(exts, nb);
  int r = opus_packet_extensions_generate(data, len, x, nb, nb_frames, pad);
  free(x); return r;
}
int opsim_ext_count(const unsigned char *data, int len, int nb_frames) { return opus_packet_extensions_count(data, len, nb_frames); }
int opsim_ext_count_ext(const unsigned char *data, int len, int *nb_frame_exts, int nb_frames) {
  return opus_packet_extensions_count_ext(data, len, (opus_int32 *)nb_frame_exts, nb_frames);
}
int opsim_ext_iterate(const unsigned char *data, int len, int nb_frames, int frame_max, opsim_ext *out, int max_out) {
  OpusExtensionIterator it; opus_extension_data e; int n = 0, r;
  opus_extension_iterator_init(&it, data, len, nb_frames);
  if (frame_max >= 0) opus_extension_iterator_set_frame_max(&it, frame_max);
  while ((r = opus_extension_iterator_next(&it, &e)) > 0) {
    if (n < max_out) from_lib(&e, &out[n], 1);
    n++;
    if (n > 1000000) return -100;
  }
  if (r < 0) return r;
  return n;
}
int opsim_ext_find(const unsigned char *data, int len, int nb_frames, int id, opsim_ext *out) {
  OpusExtensionIterator it; opus_extension_data e; int r;
  opus_extension_iterator_init(&it, data, len, nb_frames);
  r = opus_extension_iterator_find(&it, &e, id);
  if (r > 0) from_lib(&e, out, 1);
  return r;
}
int opsim_rp_out_range_impl(struct OpusRepacketizer *rp, int begin, int end, unsigned char *data, int maxlen,
                            int self_delimited, int pad, const opsim_ext *exts, int nb) {
  opus_extension_data *x = to_lib(exts, nb);
  int r = opus_repacketizer_out_range_impl(rp, begin, end, data, maxlen, self_delimited, pad, x, nb);
  free(x); return r;
}
int opsim_parse_impl(const unsigned char *data, int len, int self_delimited, unsigned char *toc,
                     int offs[48], int sizes[48], int *payload_offset, int *packet_offset,
                     int *padding_off, int *padding_len) {
  const unsigned char *frames[48]; opus_int16 size[48]; const unsigned char *padding = NULL; opus_int32 plen = 0, poff = 0;
  int i, po = 0;
  int r = opus_packet_parse_impl(data, len, self_delimited, toc, frames, size, &po, &poff, &padding, &plen);
  if (r > 0) {
    for (i = 0; i < r && i < 48; i++) { offs[i] = (int)(frames[i] - data); sizes[i] = size[i]; }
    if (payload_offset) *payload_offset = po;
    if (packet_offset) *packet_offset = poff;
    if (padding_off) *padding_off = padding ? (int)(padding - data) : -1;
    if (padding_len) *padding_len = plen;
  }
  return r;
}
int opsim_force_mode_request(void) { return OPUS_SET_FORCE_MODE_REQUEST; }
int opsim_voice_ratio_request(void) { return OPUS_SET_VOICE_RATIO_REQUEST; }
int opsim_mode_const(int which) { return which == 0 ? MODE_SILK_ONLY : which == 1 ? MODE_HYBRID : MODE_CELT_ONLY; }

/* Per-frame LBRR flags of a SILK-only / hybrid packet holding ONE Opus frame (code 0): the SILK header is nf VAD bits and one
   LBRR bit per coded channel, then (nf > 1) one flag symbol per channel that has the LBRR bit. Returns nf (1..3), or -1 when the packet
   is not of that shape. Bit f of *mid / *side is the flag of SILK frame f. */
int opsim_silk_lbrr_flags(const unsigned char *pkt, int len, int *mid, int *side) {
  int toc, cfg, nf, nch, n, i, any[2] = {0, 0}, fl[2] = {0, 0};
  ec_dec d;
  if (len < 2) return -1;
  toc = pkt[0]; cfg = toc >> 3;
  if ((toc & 3) != 0 || cfg >= 16) return -1;
  if (cfg < 12) { int dur = cfg & 3; nf = dur <= 1 ? 1 : dur; } else nf = 1;   /* SILK: 10, 20, 40, 60 ms; hybrid: 10, 20 ms */
  nch = (toc & 4) ? 2 : 1;
  ec_dec_init(&d, (unsigned char *)pkt + 1, (opus_uint32)(len - 1));
  for (n = 0; n < nch; n++) { for (i = 0; i < nf; i++) ec_dec_bit_logp(&d, 1); any[n] = ec_dec_bit_logp(&d, 1); }
  for (n = 0; n < nch; n++) if (any[n]) fl[n] = nf == 1 ? 1 : ec_dec_icdf(&d, silk_LBRR_flags_iCDF_ptr[nf - 2], 8) + 1;
  *mid = fl[0]; *side = fl[1];
  return nf;
}
