// C20 — DTX sends bounded runs of tiny packets when inactive and resumes at once (netsim `dtx`).
// Workload: activity schedules on the sample clock (bursts and gaps of 0..5 s, digital silence / low noise / dither
// gaps), all frame durations, rates, channels, applications, complexities, bitrates, VBR/CBR, DTX on and off, DTX
// toggled mid-gap. Faults: loss of the refresh packet / of the first packet after the gap (receiver side).
// Timers are counted on the sample clock (48 kHz ticks): 200 ms hang-over, 400 ms refresh.
#include "session.h"

namespace {

struct DtxSim {
  Run &run; const char *prop = "C20";
  Session S;                   // encoder under test + source
  EncNode ref_enc;             // same configuration, DTX always off (reference for "normal audio afterwards")
  DecNode G, P, R;             // G: DTX packets as given; P: DTX packets treated as lost; R: decodes the reference stream
  bool have_dec = false;
  int m_dtx = 0, m_complexity = 9, m_bitrate = OPUS_AUTO, m_vbr = 1;
  int64_t dtx_since48 = -1;            // time since which DTX has been continuously enabled with unchanged settings
  // ground truth of the input
  int64_t silence_start48 = 0;         // start of the current run of all-zero frames (-1: last frame not silent); stream start counts as "activity stopped"
  bool in_silence = true;
  int64_t last_ctl48 = -1;             // time of the most recent control change
  bool onset_seen = false;             // first tiny packet of the current silence run already seen
  bool prev_loud = false, loud_before_silence = false; int64_t loud_run48 = 0; double max_rms = 0;   // the silence run was entered straight from >= 300 ms of loud frames
  // burst bookkeeping
  int64_t burst_start48 = -1; int burst_fam = -1; int64_t burst_amp = 0; bool first_of_burst = false; int64_t prev_burst_amp = 0;
  // run of consecutive tiny packets
  int64_t tiny_run48 = 0; int tiny_run_pkts = 0; int64_t run_dmax48 = 0, sil_dmax48 = 0;
  // receiver statistics
  double gap_eG = 0, gap_eP = 0; long gap_n = 0;
  double post_eG = 0, post_eR = 0; long post_n = 0; int64_t post_from48 = -1;
  bool drop_next = false; int64_t lost_recent48 = -1, last_tiny48 = -1, last_loss48 = -1;
  bool ever_nonsilent = false, ever_loud = false, run_started_before_any_sound = false, analysis_heard_sound = false;
  explicit DtxSim(Run &r) : run(r) {}

  void op_encnew(const Op &op) {
    Op o2 = op; o2.a[0] = K_SINGLE;
    if (!S.op_encnew(o2, run)) return;
    ref_enc.create(S.enc.L, (uint64_t)op.arg(7, 1) + 5, (int)op.arg(6, -1));
    int dfs = kRates[((op.arg(8) % 5) + 5) % 5], dch = (int)(((op.arg(9) % 2) + 2) % 2) + 1;
    have_dec = G.create_single(dfs, dch, -1) == OPUS_OK && P.create_single(dfs, dch, -1) == OPUS_OK && R.create_single(dfs, dch, -1) == OPUS_OK;
    m_dtx = 0; m_complexity = 9; m_bitrate = OPUS_AUTO; m_vbr = 1; dtx_since48 = -1;
    silence_start48 = 0; in_silence = true; onset_seen = false; tiny_run48 = 0; tiny_run_pkts = 0;
  }
  void op_ctl(const Op &op) {
    if (!S.enc.alive()) return;
    int req = (int)op.arg(0), val = (int)op.arg(1);
    int r = S.enc.set(req, val);
    run.ev((uint64_t)r);
    if (req != OPUS_SET_DTX_REQUEST) ref_enc.set(req, val);
    if (r != OPUS_OK) return;
    run.count("ctl_applied");
    last_ctl48 = S.t48;
    tiny_run48 = 0; tiny_run_pkts = 0;   // the run bound is asserted per constant-settings segment (a change of complexity hands over between two independent detectors)
    switch (req) {
      case OPUS_SET_DTX_REQUEST: if (val != m_dtx) { m_dtx = val; dtx_since48 = val ? S.t48 : -1; run.count(val ? "dtx_enabled" : "dtx_disabled"); if (S.frames_encoded) run.fired = true; } break;
      case OPUS_SET_COMPLEXITY_REQUEST: m_complexity = val; break;
      case OPUS_SET_BITRATE_REQUEST: m_bitrate = val; break;
      case OPUS_SET_VBR_REQUEST: m_vbr = val; break;
      case OPUS_SET_EXPERT_FRAME_DURATION_REQUEST: S.expert_dur = val; break;
    }
  }
  void op_src(const Op &op) {
    S.op_src(op);
  }

  static double energy(const std::vector<float> &v) { double e = 0; for (float x : v) e += (double)x * x; return e; }

  void op_enc(const Op &op) {
    if (!S.enc.alive()) return;
    const Layout &L = S.enc.L;
    int fi = (int)(((op.arg(0) % 9) + 9) % 9), max_bytes = (int)std::max<int64_t>(100, op.arg(1, 1500)), fmt = (int)(((op.arg(2) % 3) + 3) % 3);
    int frame = (int)((int64_t)kFrames48[fi] * L.fs / 48000);
    if (S.expected_frame(frame) != frame) return;
    int64_t d48 = kFrames48[fi];
    std::vector<float> pcm((size_t)frame * L.ch);
    src_fill(S.src, L.fs, L.ch, S.pos, frame, pcm.data());
    // classify the frame as the encoder will see it through the chosen API format: Z = exact digital silence,
    // LOUD = rms >= -40 dBFS, anything else is indeterminate (no onset / resume claim is tied to it)
    bool silent = true; double e2 = 0;
    for (float v : pcm) {
      float q = fmt == FMT_F32 ? v : fmt == FMT_I16 ? (float)lrintf(std::max(-32768.f, std::min(32767.f, v * 32768.f))) : (float)lrintf(std::max(-8388608.f, std::min(8388607.f, v * 8388608.f)));
      if (q != 0.f) silent = false;
      e2 += (double)v * v;
    }
    double frame_rms = sqrt(e2 / (double)std::max<size_t>(1, pcm.size()));
    // LOUD = unmistakable activity: an AC source family at >= -26 dBFS and within 6 dB of the loudest frame so far (the detectors
    // judge activity relative to the running peak level, and a DC offset is no activity at all)
    bool ac_family = S.src.fam == SRC_TONES || S.src.fam == SRC_SWEEP || S.src.fam == SRC_VOICED || S.src.fam == SRC_NOISE || S.src.fam == SRC_SQUARE || S.src.fam == SRC_MUSIC || S.src.fam == SRC_STEREO || S.src.fam == SRC_STEADYVOICED || S.src.fam == SRC_ANTIPHASE || S.src.fam == SRC_ONSETS;
    if (ac_family && frame_rms > max_rms) max_rms = frame_rms;
    bool loud = !silent && ac_family && frame_rms >= 0.05 && frame_rms >= 0.5 * max_rms;
    // ---- ground truth bookkeeping
    first_of_burst = false;
    if (silent) { if (!in_silence) { in_silence = true; silence_start48 = S.t48; onset_seen = false; sil_dmax48 = 0; loud_before_silence = prev_loud && loud_run48 >= 300 * 48; } sil_dmax48 = std::max(sil_dmax48, d48); }
    else {
      if (in_silence) { in_silence = false; first_of_burst = loud; prev_burst_amp = burst_amp; burst_start48 = S.t48; burst_fam = S.src.fam; burst_amp = S.src.amp; }
      else if (S.src.fam != burst_fam || S.src.amp != burst_amp) { burst_fam = S.src.fam; burst_amp = S.src.amp; burst_start48 = S.t48; }
      silence_start48 = -1;
    }
    if (loud) loud_run48 += d48; else loud_run48 = 0;
    if (!silent) ever_nonsilent = true;
    // what the tonality analysis has heard: it runs (complexity >= 7 / 10 and Fs >= 16 kHz, otherwise it is reset on every frame) on the
    // mono downmix, and while it has only been fed digital silence its verdict stays "not valid"
    {
      double m2 = 0; size_t nfr = pcm.size() / (size_t)L.ch;
      for (size_t i = 0; i < nfr; i++) { double m = 0; for (int c = 0; c < L.ch; c++) m += pcm[i * (size_t)L.ch + (size_t)c]; m /= L.ch; m2 += m * m; }
      double mid_rms = sqrt(m2 / (double)std::max<size_t>(1, nfr));
      bool analysis_on =
#ifdef OPSIM_FIXED
          m_complexity >= 10 && L.fs >= 16000;
#else
          m_complexity >= 7 && L.fs >= 16000;
#endif
      if (!analysis_on) analysis_heard_sound = false;
      else if (loud && mid_rms >= 0.5 * frame_rms) analysis_heard_sound = true;
    }
    if (loud) ever_loud = true;
    prev_loud = loud;
    Bytes pkt, rpkt;
    int ret = S.enc.encode(pcm.data(), frame, max_bytes, fmt, pkt);
    int rret = ref_enc.alive() ? ref_enc.encode(pcm.data(), frame, max_bytes, fmt, rpkt) : -1;
    run.ev((uint64_t)ret); run.evb(pkt.data(), pkt.size());
    if (ret <= 0) { S.pos += frame; S.t48 += d48; return; }   // (an encoder failure is C02 / C05's subject)
    run.api_ok++; S.frames_encoded++;
    opus_int32 in_dtx = -1; S.enc.get(OPUS_GET_IN_DTX_REQUEST, &in_dtx);
    run.ev((uint64_t)in_dtx);
    bool tiny = ret <= 2;
    int64_t t0 = S.t48, t1 = S.t48 + d48;
    if (run.verbose) printf("t=%.1f d=%.1f ret=%d toc=%02x in_dtx=%d silent=%d dtx=%d cplx=%d br=%d\n", t0 / 48.0, d48 / 48.0, ret, pkt[0], in_dtx, (int)silent, m_dtx, m_complexity, m_bitrate);
    const int64_t MS = 48;
    bool analysis_cfg =
#ifdef OPSIM_FIXED
        m_complexity >= 10 && L.fs >= 16000;
#else
        m_complexity >= 7 && L.fs >= 16000;
#endif
    double bytes_per_frame = m_bitrate == OPUS_AUTO || m_bitrate == OPUS_BITRATE_MAX ? 1e9 : (double)m_bitrate * d48 / 48000.0 / 8.0;
    run.sg(mix64(mix64((uint64_t)tiny, (uint64_t)silent), mix64((uint64_t)fi, (uint64_t)(m_dtx * 2 + analysis_cfg))));
    if (tiny) run.count("tiny_packets");
    bool onset_was_seen = onset_seen;
    if (tiny && in_silence && silent) onset_seen = true;   // whatever made it tiny: the onset clause only speaks about the first one
    // ---- O5: DTX disabled => no packet of two bytes or fewer (bitrate and buffer allow well over three bytes)
    long eff_rate = m_bitrate == OPUS_AUTO || m_bitrate == OPUS_BITRATE_MAX ? 1000000 : std::max(500, m_bitrate);
    // long frames, low budget: every packet is TOC-only, DTX or not (the library's test, with its integer frame rate and, in CBR, the
    // packet size in place of the buffer size)
    long frame_rate_i = 48000 / d48;
    long eff_max = m_vbr || m_bitrate == OPUS_AUTO || m_bitrate == OPUS_BITRATE_MAX ? max_bytes : std::min<long>(max_bytes, (long)((12.0 * eff_rate / 8 + 6.0 * 48000 / d48) / (12.0 * 48000 / d48)));
    bool toc_only_regime = d48 > 960 && (eff_rate < 2400 || eff_max * frame_rate_i < 300);
    // (stated for "at least three bytes per frame"; for frames longer than 20 ms the library deliberately asks for more - 2400 bit/s and
    //  300 buffer bytes per second - before it codes anything but TOC-only packets: a known finding with exactly that signature)
    if (!m_dtx && tiny && bytes_per_frame >= 3.0 - 1e-9 && max_bytes >= 3) {
      long eff = m_bitrate == OPUS_AUTO || m_bitrate == OPUS_BITRATE_MAX ? 1000000 : std::max(500, m_bitrate);
      double frame_rate = 48000.0 / d48;
      bool long_frame_rule = toc_only_regime; (void)eff; (void)frame_rate;
      REPORT(run, prop, long_frame_rule ? "tiny_packet_with_dtx_disabled_long_frame_below_2400bps" : "tiny_packet_with_dtx_disabled", "ret=%d frame_ms=%.1f bitrate=%d (%.2f bytes/frame) max_bytes=%d toc=%02x t=%.0fms", ret, d48 / 48.0, m_bitrate, bytes_per_frame, max_bytes, pkt[0], t0 / 48.0);
    }
    if (!m_dtx && !tiny) run.count("nodtx_checked");
    if (m_dtx && bytes_per_frame >= 8 && !toc_only_regime) {
      if (tiny) {
        run.count("dtx_packets");
        // ---- O3: the in-DTX query is true on every DTX packet
        if (in_dtx != 1) REPORT(run, prop, "in_dtx_false_on_dtx_packet", "ret=%d in_dtx=%d t=%.0fms frame_ms=%.1f cplx=%d fs=%d", ret, in_dtx, t0 / 48.0, d48 / 48.0, m_complexity, L.fs);
        // ---- O2: run bound in every configuration
        if (tiny_run_pkts == 0) { run_started_before_any_sound = !analysis_heard_sound; run_dmax48 = 0; }
        tiny_run48 += d48; tiny_run_pkts++; run_dmax48 = std::max(run_dmax48, d48);
        if (tiny_run48 >= 400 * MS + run_dmax48) {
          // known mechanism: the tonality analysis has heard nothing audible since it was last (re)started (digital silence, input far
          // below the activity threshold, or stereo content that cancels in its mono downmix), so its verdict is not valid or not active; whenever the input flips between exact silence and not-quite-silence the DTX decision is
          // handed over between the Opus-level counter and SILK's own, unsynchronised one, and the run is not refreshed in time
          bool handover = run_started_before_any_sound && analysis_cfg;
          REPORT(run, prop, handover ? "dtx_run_too_long_initial_silence_handover" : "dtx_run_too_long", "run of %d tiny packets lasts %.1f ms (longest frame %.1f ms) cplx=%d fs=%d", tiny_run_pkts, tiny_run48 / 48.0, run_dmax48 / 48.0, m_complexity, L.fs);
        }
        if (run.stat["max:dtx_run_ms"] < tiny_run48 / 48) run.stat["max:dtx_run_ms"] = tiny_run48 / 48;
        // ---- O4: the first frame of renewed activity is coded normally
        // (precondition: an abrupt onset at or above the level of the previous burst and above -26 dBFS; a fade-in or a quieter
        //  signal is legitimately judged inactive by the detectors for a frame or more)
        if (first_of_burst && frame_rms >= 0.05 && burst_amp >= prev_burst_amp && (burst_fam == SRC_TONES || burst_fam == SRC_MUSIC || burst_fam == SRC_NOISE || burst_fam == SRC_SQUARE || burst_fam == SRC_SWEEP || burst_fam == SRC_STEADYVOICED || burst_fam == SRC_ANTIPHASE))
          REPORT(run, prop, burst_fam == SRC_ANTIPHASE && L.ch == 2 && toc_mode(pkt[0]) != 2 ? "first_active_frame_sent_as_dtx_antiphase_stereo_silk" : "first_active_frame_sent_as_dtx", "family %s amp %lld t=%.0fms frame_ms=%.1f cplx=%d fs=%d", kSrcName[burst_fam], (long long)burst_amp, t0 / 48.0, d48 / 48.0, m_complexity, L.fs);
        // ---- O1 (lower bound): no DTX packet lies wholly inside the 200 ms hang-over after activity stops
        if (analysis_cfg && in_silence && silent && !onset_was_seen && dtx_since48 >= 0 && dtx_since48 <= silence_start48 && last_ctl48 <= silence_start48) {
          run.count("onset_checked");
          if (loud_before_silence) run.count("onset_lower_bound_checked");
          if (loud_before_silence && t1 <= silence_start48 + 200 * MS)
            REPORT(run, prop, "dtx_before_200ms_hangover", "tiny packet covers %.1f..%.1f ms after activity stopped (frame %.1f ms)", (t0 - silence_start48) / 48.0, (t1 - silence_start48) / 48.0, d48 / 48.0);
          if (t0 > silence_start48 + 200 * MS + sil_dmax48)
            REPORT(run, prop, "dtx_onset_late", "first tiny packet starts %.1f ms after activity stopped (frame %.1f ms)", (t0 - silence_start48) / 48.0, d48 / 48.0);
        }
      } else {
        if (tiny_run_pkts > 0) { run.count("dtx_runs"); if (silent) run.count("dtx_refresh"); }
        tiny_run48 = 0; tiny_run_pkts = 0;
        if (first_of_burst && frame_rms >= 0.05 && burst_amp >= prev_burst_amp) run.count("resume_checked");
        // ---- O1 (upper bound): digital silence must have produced a DTX packet by now
        if (analysis_cfg && in_silence && silent && !onset_seen && dtx_since48 >= 0 && dtx_since48 <= silence_start48 && last_ctl48 <= silence_start48 &&
            t0 > silence_start48 + 200 * MS + sil_dmax48)
          REPORT(run, prop, "dtx_onset_missing", "non-DTX packet (%d bytes) starting %.1f ms after activity stopped (frame %.1f ms) cplx=%d fs=%d", ret, (t0 - silence_start48) / 48.0, d48 / 48.0, m_complexity, L.fs);
      }
    } else { tiny_run48 = 0; tiny_run_pkts = 0; }

    // ---- O4 per 20 ms sub-frame of a longer packet: with the generalized DTX the decision is taken per coded frame, and a coded frame whose
    // samples are unmistakably active (same LOUD definition, applied to its own slice of the input) is never one of the dropped ones
    if (m_dtx && analysis_cfg && bytes_per_frame >= 8 && !toc_only_regime && !tiny && d48 > 960) {
      const unsigned char *fr[48]; opus_int16 fsz[48]; unsigned char toc_; int po = 0;
      int nfp = opus_packet_parse(pkt.data(), (opus_int32)pkt.size(), &toc_, fr, fsz, &po);
      bool fam_ok = S.src.fam == SRC_TONES || S.src.fam == SRC_MUSIC || S.src.fam == SRC_NOISE || S.src.fam == SRC_SQUARE || S.src.fam == SRC_SWEEP || S.src.fam == SRC_STEADYVOICED || S.src.fam == SRC_ONSETS;
      if (nfp > 1 && frame % nfp == 0 && fam_ok) {
        size_t per = (size_t)(frame / nfp) * (size_t)L.ch;
        for (int f = 0; f < nfp; f++) {
          double e = 0; for (size_t i = (size_t)f * per; i < (size_t)(f + 1) * per; i++) e += (double)pcm[i] * pcm[i];
          double srms = sqrt(e / (double)per);
          bool sloud = srms >= 0.05 && srms >= 0.5 * max_rms;
          if (!sloud) continue;
          run.count("subframe_resume_checked");
          if (fsz[f] == 0) REPORT(run, prop, "active_subframe_of_multiframe_packet_dropped", "sub-frame %d of %d (%d bytes) of the %.0f ms packet at t=%.0fms has rms %.3f (loudest so far %.3f), family %s cplx=%d fs=%d ch=%d", f, nfp, (int)fsz[f], d48 / 48.0, t0 / 48.0, srms, max_rms, kSrcName[S.src.fam], m_complexity, L.fs, L.ch);
        }
      }
    }
    // ---- receivers
    if (have_dec) {
      int out = (int)(d48 * G.fs / 48000);
      bool lost = drop_next; drop_next = false;
      std::vector<float> pg, pp, pr; bool fin = true, can = true;
      int rg = lost ? G.decode(nullptr, 0, out, 0, FMT_F32, &pg, nullptr, &can, &fin) : G.decode(pkt.data(), (int)pkt.size(), out, 0, FMT_F32, &pg, nullptr, &can, &fin);
      if (rg != out) REPORT(run, prop, "receiver_G_wrong_duration", "got %d want %d (tiny=%d lost=%d)", rg, out, (int)tiny, (int)lost);
      int rp = (tiny || lost) ? P.decode(nullptr, 0, out, 0, FMT_F32, &pp, nullptr, &can, &fin) : P.decode(pkt.data(), (int)pkt.size(), out, 0, FMT_F32, &pp, nullptr, &can, &fin);
      if (rp != out) REPORT(run, prop, "receiver_P_wrong_duration", "got %d want %d (tiny=%d)", rp, out, (int)tiny);
      if (rret > 0) { int rr = R.decode(rpkt.data(), (int)rpkt.size(), out, 0, FMT_F32, &pr); if (rr != out) REPORT(run, prop, "receiver_R_wrong_duration", "got %d want %d", rr, out); }
      run.api_ok += 2;
      if (lost) { run.count("rx_lost"); lost_recent48 = t0; } else if (lost_recent48 >= 0 && t0 >= lost_recent48 + 1000 * MS) lost_recent48 = -1;
      // near-silence in the gap: digital silence preceded by >= 1 s of it
      // (a lost packet hands the gap to concealment of whatever came before - C09's subject; the clock restarts after a loss)
      if (lost) last_loss48 = t0;
      if (m_dtx && bytes_per_frame >= 8 && !toc_only_regime && in_silence && silent && silence_start48 >= 0 && t0 >= std::max(std::max(silence_start48, last_loss48), last_ctl48) + 1000 * MS && silence_start48 > 0) {
        gap_eG += energy(pg); gap_eP += energy(pp); gap_n += (long)pg.size();
      }
      // normal audio afterwards: from 500 ms after a loud burst resumed, for as long as it lasts
      if (tiny) last_tiny48 = t0;
      // precondition (same as C09's recovery clause): CELT-only packets, or an aperiodic source. A SILK / hybrid decoder whose
      // long-term predictor state differs from the encoder's does not reconverge on a stationary periodic signal (a healthy IIR
      // decoder can even ring up for a while), so a level comparison is only meaningful where the predictor memory is flushed.
      bool flushable = toc_mode(pkt[0]) == 2 || burst_fam == SRC_NOISE;
      // ... and only while the DTX-off twin codes the frame with the same mode, bandwidth and channel count: with DTX on and the SILK
      // detector in charge the encoder deliberately prefers SILK-only ("use SILK in order to make use of its DTX"), e.g. medium-band
      // SILK against the twin's full-band CELT - white noise then decodes at half the level because three quarters of its band are gone
      bool same_coding = rret > 0 && !rpkt.empty() && (rpkt[0] & 0xFC) == (pkt[0] & 0xFC);
      if (same_coding) run.count("resume_same_coding_frames");
      if (m_dtx && loud && !tiny && flushable && same_coding && loud_run48 >= 500 * MS && (last_tiny48 < 0 || t0 >= last_tiny48 + 500 * MS) && !pr.empty() && !lost && lost_recent48 < 0) {
        post_eG += energy(pg); post_eR += energy(pr); post_n += (long)pg.size();
        if (run.verbose) printf("   post: rmsG=%.5f rmsR=%.5f ret=%d rret=%d in_rms=%.5f\n", sqrt(energy(pg) / pg.size()), sqrt(energy(pr) / pr.size()), ret, rret, frame_rms);
      }
    }
    S.pos += frame; S.t48 += d48; run.sim_samples48 += d48;
  }

  void finish() {
    // calibrated receiver oracles (thresholds: calib/thresholds.json C20.*)
    if (gap_n >= 4800) {
      double rg = sqrt(gap_eG / gap_n), rp = sqrt(gap_eP / gap_n);
      run.count("gap_silence_checked");
      long ug = (long)(rg * 1e6), up = (long)(rp * 1e6);
      if (run.stat["max:gap_rms_G_micro"] < ug) run.stat["max:gap_rms_G_micro"] = ug;
      if (run.stat["max:gap_rms_P_micro"] < up) run.stat["max:gap_rms_P_micro"] = up;
      if (getenv("OPSIM_CALIB")) fprintf(stderr, "C20GAP rmsG=%.6f rmsP=%.6f n=%ld\n", rg, rp, gap_n);
      const double SIGMA = 0.001;   // -60 dBFS (worst observed 3.0e-4 over 3000 gaps)
      if (rg > SIGMA) REPORT(run, prop, "gap_not_near_silent_G", "rms %.5f over %ld samples", rg, gap_n);
      if (rp > SIGMA) REPORT(run, prop, "gap_not_near_silent_P", "rms %.5f over %ld samples", rp, gap_n);
    }
    if (post_n >= 9600 && post_eR > 0) {
      double ratio = sqrt(post_eG / post_eR), rr = sqrt(post_eR / post_n);
      if (rr > 0.003) {
        run.count("resume_level_checked");
        if (getenv("OPSIM_CALIB")) fprintf(stderr, "C20POST ratio=%.4f rmsR=%.5f n=%ld\n", ratio, rr, post_n);
        long milli = (long)(ratio * 1000);
        if (run.stat["max:post_ratio_milli"] < milli) run.stat["max:post_ratio_milli"] = milli;
        if (run.stat.find("min:post_ratio_milli") == run.stat.end()) {}
        if (ratio < 0.5 || ratio > 2.0) REPORT(run, prop, "audio_after_gap_level_wrong", "rms ratio DTX-stream/reference = %.3f over %ld samples (reference rms %.4f)", ratio, post_n, rr);
      }
    }
  }

  void go(const Plan &p) {
    for (size_t i = 0; i < p.ops.size(); i++) {
      const Op &op = p.ops[i]; run.cur_op = (int)i;
      if (op.k == "ENCNEW") op_encnew(op);
      else if (op.k == "CTL") op_ctl(op);
      else if (op.k == "SRC") op_src(op);
      else if (op.k == "ENC") op_enc(op);
      else if (op.k == "LOSE") { drop_next = true; run.fired = true; }
    }
    finish();
  }
};

Plan gen(uint64_t seed, int tier) {
  Rng r(seed);
  Plan p; p.hdr["scenario"] = "dtx";
  int fsidx = (int)r.weighted({1, 1, 3, 2, 4}), ch = (int)r.range(1, 2);
  p.ops.push_back(mkop("ENCNEW", {K_SINGLE, fsidx, ch, r.range(0, 2), 0, 0, r.chance(0.7) ? -1 : r.range(0, 4), (int64_t)r.range(1, 1 << 30), r.range(0, 4), r.range(0, 1)}));
  int cplx = r.chance(0.65) ? (int)r.range(7, 10) : (int)r.range(0, 6);
  p.ops.push_back(mkop("CTL", {OPUS_SET_COMPLEXITY_REQUEST, cplx}));
  bool dtx = r.chance(0.8);
  p.ops.push_back(mkop("CTL", {OPUS_SET_DTX_REQUEST, dtx ? 1 : 0}));
  p.ops.push_back(mkop("CTL", {OPUS_SET_BITRATE_REQUEST, r.chance(0.3) ? OPUS_AUTO : r.pick({6000, 8000, 12000, 16000, 24000, 32000, 64000, 128000})}));
  if (r.chance(0.4)) p.ops.push_back(mkop("CTL", {OPUS_SET_VBR_REQUEST, r.range(0, 1)}));
  if (r.chance(0.3)) p.ops.push_back(mkop("CTL", {OPUS_SET_VBR_CONSTRAINT_REQUEST, r.range(0, 1)}));
  if (r.chance(0.3)) p.ops.push_back(mkop("CTL", {11002, r.pick({1000, 1001, 1002})}));
  if (r.chance(0.3)) p.ops.push_back(mkop("CTL", {OPUS_SET_SIGNAL_REQUEST, r.pick({3001, 3002})}));
  if (r.chance(0.2)) p.ops.push_back(mkop("CTL", {OPUS_SET_INBAND_FEC_REQUEST, r.range(0, 2)}));
  if (r.chance(0.2)) p.ops.push_back(mkop("CTL", {OPUS_SET_BANDWIDTH_REQUEST, r.pick({1101, 1102, 1103, 1104, 1105})}));
  int fidx = r.weighted({1, 1, 3, 8, 3, 3, 1, 1, 1});
  // the smallest budgets: at, just above and just below three bytes per frame of the chosen duration, and a few bytes more
  if (r.chance(0.12)) p.ops.push_back(mkop("CTL", {OPUS_SET_BITRATE_REQUEST, (int)(r.pick({3, 3, 3, 4, 5, 7}) * 8 * 48000 / kFrames48[fidx]) + (int)r.pick({-1, 0, 0, 0, 1})}));
  int64_t total48 = (int64_t)(tier ? r.range(3, 14) : r.range(2, 6)) * 48000, t = 0;
  bool burst = r.chance(0.8);
  double pctl = r.pick({0.0, 0.0, 0.01, 0.03}), plose = r.pick({0.0, 0.0, 0.3});
  int64_t last_amp = 0;
  // DTX switched exactly at a burst / gap boundary ("enable DTX when the user mutes", "disable it while talking"): what the inactivity
  // clocks accumulated while the switch was in its other position must not count
  double pboundary = r.pick({0.0, 0.0, 0.4});
  while (t < total48) {
    if (t > 0 && r.chance(pboundary)) { p.ops.push_back(mkop("CTL", {OPUS_SET_DTX_REQUEST, burst ? r.pick({0, 0, 1}) : r.pick({1, 1, 0})})); }
    // one segment: burst or gap, 0..5 s (biased to the timer constants)
    int64_t seg = (int64_t)r.pick({100, 190, 200, 210, 400, 600, 610, 800, 1000, 1500, 2500, (int)r.range(0, 5000)}) * 48;
    if (burst) {
      int fam = r.pick({(int)SRC_TONES, (int)SRC_VOICED, (int)SRC_MUSIC, (int)SRC_NOISE, (int)SRC_SQUARE, (int)SRC_SWEEP, (int)SRC_VOICED, (int)SRC_MUSIC});
      if (ch == 2 && r.chance(0.12)) fam = r.chance(0.5) ? (int)SRC_ANTIPHASE : (int)SRC_STEADYVOICED;
      if (r.chance(0.12)) fam = (int)SRC_ONSETS;   // activity that stops and resumes abruptly at every position inside a packet
      int64_t amp = r.pick({100, 300, 500, 900});
      if (r.chance(0.15)) amp = r.pick({1, 10, 30});
      last_amp = amp;
      p.ops.push_back(mkop("SRC", {fam, r.pick({110, 150, 220, 440, 1000, 3000}), amp, r.range(1, 1000), r.pick({0, 300, 600, 2000})}));
    } else {
      int kind = r.weighted({7, 1, 1, 1});   // digital silence, low-level noise, dither, denormals
      if (kind == 0) p.ops.push_back(mkop("SRC", {SRC_SILENCE, 0, 0, 1, 0}));
      else if (kind == 1) p.ops.push_back(mkop("SRC", {SRC_NOISE, 0, r.pick({1, 1, 3}), r.range(1, 1000), 0}));
      else if (kind == 2) p.ops.push_back(mkop("SRC", {SRC_DITHER, 0, 0, r.range(1, 1000), 0}));
      else p.ops.push_back(mkop("SRC", {SRC_DENORMAL, 0, 0, r.range(1, 1000), 0}));
    }
    int64_t end = t + seg; bool first = true;
    while (t < end && t < total48) {
      if (r.chance(pctl)) {
        int w = r.weighted({3, 2, 2, 1, 1});
        if (w == 0) p.ops.push_back(mkop("CTL", {OPUS_SET_DTX_REQUEST, r.range(0, 1)}));
        else if (w == 1) p.ops.push_back(mkop("CTL", {OPUS_SET_COMPLEXITY_REQUEST, r.range(0, 10)}));
        else if (w == 2) p.ops.push_back(mkop("CTL", {OPUS_SET_BITRATE_REQUEST, r.pick({6000, 12000, 24000, 64000})}));
        else if (w == 3) p.ops.push_back(mkop("CTL", {11002, r.pick({1000, 1001, 1002, -1000})}));
        else fidx = r.weighted({1, 1, 3, 8, 3, 3, 1, 1, 1});
      }
      if (first && burst && r.chance(plose)) p.ops.push_back(mkop("LOSE"));   // lose the first packet after the gap
      else if (!burst && r.chance(plose * 0.05)) p.ops.push_back(mkop("LOSE")); // lose a packet inside the gap (possibly the refresh)
      p.ops.push_back(mkop("ENC", {fidx, r.pick({1500, 1500, 1276, 400, 100}), r.range(0, 2)}));
      t += kFrames48[fidx]; first = false;
    }
    burst = !burst;
  }
  (void)last_amp;
  return p;
}

void exec(const Plan &p, Run &run) { DtxSim d(run); d.go(p); }

}  // namespace
REGISTER_SCENARIO(C20, "dtx", gen, exec);
