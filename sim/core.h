// opsim core: PRNG, plans (explicit operation + fault lists), run context, event hash.
#pragma once
#include <stdint.h>
#include <stdio.h>
#include <stdlib.h>
#include <string.h>
#include <math.h>
#include <string>
#include <vector>
#include <map>
#include <set>
#include <functional>
#include <initializer_list>
#include <algorithm>

// ------------------------------------------------------------------ PRNG
static inline uint64_t splitmix64(uint64_t &x) {
  uint64_t z = (x += 0x9E3779B97F4A7C15ULL);
  z = (z ^ (z >> 30)) * 0xBF58476D1CE4E5B9ULL;
  z = (z ^ (z >> 27)) * 0x94D049BB133111EBULL;
  return z ^ (z >> 31);
}
static inline uint64_t mix64(uint64_t a, uint64_t b) {
  uint64_t x = a ^ (b + 0x9E3779B97F4A7C15ULL + (a << 6) + (a >> 2));
  return splitmix64(x);
}
static inline uint64_t hash_str(const char *s) {
  uint64_t h = 1469598103934665603ULL;
  for (; *s; s++) { h ^= (unsigned char)*s; h *= 1099511628211ULL; }
  return h;
}
static inline uint64_t hash_bytes(const void *p, size_t n, uint64_t h = 1469598103934665603ULL) {
  const unsigned char *b = (const unsigned char *)p;
  for (size_t i = 0; i < n; i++) { h ^= b[i]; h *= 1099511628211ULL; }
  return h;
}

struct Rng {  // xoshiro256**
  uint64_t s[4];
  explicit Rng(uint64_t seed = 1) { reseed(seed); }
  void reseed(uint64_t seed) { uint64_t x = seed; for (int i = 0; i < 4; i++) s[i] = splitmix64(x); }
  static inline uint64_t rotl(uint64_t x, int k) { return (x << k) | (x >> (64 - k)); }
  uint64_t next() {
    uint64_t r = rotl(s[1] * 5, 7) * 9, t = s[1] << 17;
    s[2] ^= s[0]; s[3] ^= s[1]; s[1] ^= s[2]; s[0] ^= s[3]; s[2] ^= t; s[3] = rotl(s[3], 45);
    return r;
  }
  uint32_t u32() { return (uint32_t)(next() >> 32); }
  // inclusive range
  int64_t range(int64_t lo, int64_t hi) { if (hi <= lo) return lo; return lo + (int64_t)(next() % (uint64_t)(hi - lo + 1)); }
  bool chance(double p) { return (next() >> 11) * (1.0 / 9007199254740992.0) < p; }
  double unit() { return (next() >> 11) * (1.0 / 9007199254740992.0); }
  template <class T> T pick(std::initializer_list<T> l) { return *(l.begin() + range(0, (int64_t)l.size() - 1)); }
  template <class T> const T &pickv(const std::vector<T> &v) { return v[range(0, (int64_t)v.size() - 1)]; }
  // weighted index
  int weighted(std::initializer_list<int> w) {
    int tot = 0; for (int x : w) tot += x;
    int r = (int)range(0, tot - 1), i = 0;
    for (int x : w) { if (r < x) return i; r -= x; i++; }
    return 0;
  }
};

// ------------------------------------------------------------------ plans
struct Op {
  std::string k;             // operation kind
  std::vector<int64_t> a;    // arguments (indices are interpreted modulo what exists at execution)
  int64_t arg(size_t i, int64_t def = 0) const { return i < a.size() ? a[i] : def; }
};
static inline Op mkop(const char *k, std::initializer_list<int64_t> a = {}) { Op o; o.k = k; o.a.assign(a.begin(), a.end()); return o; }

struct Plan {
  std::string prop;                          // property id
  uint64_t seed = 0;                         // run seed that generated it (0 for hand-written)
  int tier = 0;
  std::map<std::string, std::string> hdr;    // swarm config summary, expected class/hash on replay files
  std::vector<Op> ops;
  std::string text() const;
  static bool parse(const std::string &txt, Plan &out);
};

// ------------------------------------------------------------------ run context
struct Violation { std::string cls, detail; };
struct Fatal { std::string where; };          // thrown by our celt_fatal
struct Skip {};                                // run aborted for a benign reason (should not happen)

struct Run {
  uint64_t evhash = 0x1234567;                // hash over every observable API result
  uint64_t sig = 0x42;                        // run signature (coarse: op kinds / fault kinds / result classes)
  std::map<std::string, long> stat;           // faults fired, probes, counters
  long api_ok = 0;                            // successful encode/decode calls
  long sim_samples48 = 0;                     // simulated time in 48 kHz samples
  bool fired = false;                         // some fault / control change actually took effect
  std::vector<std::string> known_hits;        // KNOWN-FINDING signatures matched in this run
  bool verbose = false;
  int cur_op = -1;
  void ev(uint64_t x) { evhash = mix64(evhash, x); }
  void evb(const void *p, size_t n) { evhash = mix64(evhash, hash_bytes(p, n)); }
  void sg(uint64_t x) { sig = mix64(sig, x); }
  void sgs(const char *s) { sig = mix64(sig, hash_str(s)); }
  void count(const std::string &k, long n = 1) { stat[k] += n; }
  [[noreturn]] void fail(const std::string &cls, const std::string &detail) { throw Violation{cls, detail}; }
};
std::string strf(const char *fmt, ...) __attribute__((format(printf, 1, 2)));

// a violation class listed in KNOWN_FINDINGS.txt is recorded, not raised
bool known_finding(const std::string &prop, const std::string &cls);
#define REPORT(run, prop, cls, ...) do { std::string c__ = (cls); \
  if (known_finding(prop, c__)) { (run).known_hits.push_back(c__); } else (run).fail(c__, strf(__VA_ARGS__)); } while (0)

struct Scenario {
  const char *prop;
  const char *name;
  Plan (*gen)(uint64_t seed, int tier);
  void (*exec)(const Plan &, Run &);
  bool fork_per_run = false;                  // every run in a child forked from a process that never entered libopus
};
void register_scenario(const Scenario &);
const Scenario *find_scenario(const std::string &prop);
#define REGISTER_SCENARIO(id, nm, g, e) \
  static struct Reg_##id { Reg_##id() { register_scenario(Scenario{#id, nm, g, e, false}); } } reg_##id
#define REGISTER_SCENARIO_FORK(id, nm, g, e) \
  static struct Reg_##id { Reg_##id() { register_scenario(Scenario{#id, nm, g, e, true}); } } reg_##id

// ------------------------------------------------------------------ seams (seams.cc)
struct AllocCtl {
  long count = 0;          // allocations seen since reset
  long fail_at = -1;       // fail the k-th (0-based) allocation
  long failed = 0;
  int fill = 0xA5;         // fill byte for fresh blocks; 256 = seeded noise
  uint64_t fill_seed = 0;
  long live = 0;           // live blocks
  int spacer = 0;          // extra bytes in front (changes addresses)
};
extern AllocCtl g_alloc;
void alloc_reset_run();    // free every block still live (after an aborted run) and reset counters
extern __thread Rng *g_rand_stream; // stream behind __wrap_rand (per logical object; per thread under threadsim)
extern __thread int g_arch_cap;     // max arch level for objects created now (-1 = host)
extern __thread int g_arch_force;   // >= 0: exact level for objects created now (overrides the FUZZING build's random downgrade)
extern __thread const char *g_ctx;   // what the simulator is doing right now (names an abort() raised inside the library)
extern __thread bool g_in_run;
void *sim_malloc(size_t n);         // malloc, or the running task's arena under threadsim
void sim_free(void *p);
extern long g_arch_calls;
int host_arch();
