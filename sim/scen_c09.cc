// C09 — packet loss: PLC and FEC return the requested audio, stay bounded, and recover (netsim `lossy`).
// Sender: a live encoder (FEC-capable settings over-represented, DTX off). Link: loss patterns only (iid, Gilbert-Elliott bursts,
// periodic, k-bit window patterns, long bursts, loss right after mode/bandwidth transitions; duplicates and late arrivals are
// discarded by the jitter buffer, i.e. they are losses at play-out time). Receivers, all real decoders with the same configuration:
//   L  sees the faulty link and follows the play-out policy (FEC from the next packet when it has arrived, else PLC, in pieces)
//   P  sees the same link but never uses FEC (concealment only)
//   R  sees the unfaulted packet log (loss-free twin)
// Phase 1 runs the sender and records packets + the fault attached to each; phase 2 plays the log out through L, P and R.
#include "shim.h"
#include "session.h"

namespace {

struct Rec {
  Bytes pkt; int frame48 = 0; opus_uint32 enc_range = 0; bool lost = false; int mode = 0; bool silent_in = false; double in_rms = 0;
  int lbrr = 0; int fam = 0; int loss_perc = 0; bool vad_active = true;   // SILK / hybrid: every SILK frame of the (mid) channel carries the voice-activity flag
};
struct Pol { int fec = 1, piece = 0, slack = 0; };

struct Lossy {
  Run &run; const char *prop = "C09";
  Session S;
  DecNode Ld, Pd, Rd; int dfs = 48000, dch = 1; bool have_rx = false;
  std::vector<Rec> log; std::vector<std::pair<size_t, Pol>> pol_changes; Pol pol;
  int flavour = 0;   // 0 general, 1 FEC probe, 2 decay probe
  int rx_cap = -1; long win_at = -1; int win_k = 0;   // WINDOW: every one of the 2^k loss patterns over packets [win_at, win_at+k) is played out
  uint64_t cur_seed = 0;
  explicit Lossy(Run &r) : run(r) {}

  static double energy(const std::vector<float> &v) { double e = 0; for (float x : v) e += (double)x * x; return e; }
  static double peak(const std::vector<float> &v) { double p = 0; for (float x : v) p = std::max(p, (double)fabsf(x)); return p; }

  void op_enc(const Op &op) {
    if (!S.enc.alive()) return;
    const Layout &L = S.enc.L;
    int fi = (int)(((op.arg(0) % 9) + 9) % 9), max_bytes = (int)std::max<int64_t>(10, op.arg(1, 1500)), fmt = (int)(((op.arg(2) % 3) + 3) % 3);
    int frame = (int)((int64_t)kFrames48[fi] * L.fs / 48000);
    if (S.expected_frame(frame) != frame) return;
    std::vector<float> pcm((size_t)frame * L.ch);
    src_fill(S.src, L.fs, L.ch, S.pos, frame, pcm.data());
    Rec rc; rc.frame48 = kFrames48[fi]; rc.fam = S.src.fam;
    rc.silent_in = true; for (float v : pcm) if (v != 0.f) { rc.silent_in = false; break; }
    rc.in_rms = sqrt(energy(pcm) / std::max<size_t>(1, pcm.size()));
    int ret = S.enc.encode(pcm.data(), frame, max_bytes, fmt, rc.pkt);
    run.ev((uint64_t)ret); run.evb(rc.pkt.data(), rc.pkt.size());
    S.pos += frame; S.t48 += rc.frame48;
    if (ret <= 0) return;   // (an encoder failure is C02 / C05's subject)
    rc.enc_range = S.enc.final_range(); rc.mode = toc_mode(rc.pkt[0]);
    rc.lbrr = opus_packet_has_lbrr(rc.pkt.data(), (opus_int32)rc.pkt.size());
    { opus_int32 lp = 0; S.enc.get(OPUS_GET_PACKET_LOSS_PERC_REQUEST, &lp); rc.loss_perc = (int)lp; }
    if (rc.mode != 2) {
      // the SILK layer starts with one VAD flag per 20 ms SILK frame (probability 1/2 each: the leading bits of the first payload byte)
      Framed f = model_parse(rc.pkt.data(), (int)rc.pkt.size(), false);
      int per = toc_frame48(rc.pkt[0]); int nsf = per <= 960 ? 1 : per / 960;
      for (int i = 0; f.ok && i < f.nframes; i++) { if (f.len[i] < 1) { rc.vad_active = false; continue; } unsigned char b0 = rc.pkt[(size_t)f.off[i]]; for (int q = 0; q < nsf; q++) if (!((b0 >> (7 - q)) & 1)) rc.vad_active = false; }
      if (!rc.vad_active) run.count("pkt_vad_inactive");
    }
    static const char *mn[3] = {"mode_silk", "mode_hybrid", "mode_celt"}; run.count(mn[rc.mode]);
    if (rc.lbrr == 1) run.count("pkt_with_lbrr");
    log.push_back(rc); S.frames_encoded++;
  }
  void op_net(const Op &op) {
    if (log.empty()) return;
    int kind = (int)op.arg(0);
    static const char *kn[] = {"f_drop", "f_burst", "f_late", "f_dup_discarded", "f_after_transition"};
    if (kind == 3) { run.count(kn[3]); return; }                       // the duplicate is discarded: no effect at play-out
    if (kind == 4) { size_t n = log.size(); if (n < 2 || (log[n - 1].mode == log[n - 2].mode && (log[n - 1].pkt[0] >> 3) == (log[n - 2].pkt[0] >> 3))) return; }
    log.back().lost = true; run.count(kn[kind < 0 || kind > 4 ? 0 : kind]); run.fired = true;
  }

  // conceal `n` samples (at the receiver rate) on decoder d in pieces of `piece` samples (0 = one call)
  int conceal(DecNode &d, int n, int piece, std::vector<float> &out, const char *who) {
    out.clear();
    int done = 0;
    while (done < n) {
      int c = piece > 0 ? std::min(piece, n - done) : n - done;
      std::vector<float> part; bool fin = true, can = true;
      int r = d.decode(nullptr, 0, c, 0, FMT_F32, &part, nullptr, &can, &fin);
      if (r != c) REPORT(run, prop, "plc_wrong_count", "%s: asked %d got %d", who, c, r);
      if (!fin) REPORT(run, prop, "plc_nonfinite", "%s", who);
      if (!can) REPORT(run, prop, "plc_wrote_past_buffer", "%s", who);
      out.insert(out.end(), part.begin(), part.end());
      done += c; run.api_ok++;
    }
    run.count("plc_calls");
    return done;
  }

  void playout() {
    if (!have_rx || log.empty()) return;
    if (const char *dump = getenv("OPSIM_DUMP_PKTS")) {   // inspection aid: packet log for a standalone decoder
      FILE *f = fopen(dump, "w");
      if (f) { fprintf(f, "%d %d %zu\n", dfs, dch, log.size()); for (auto &rc : log) { fprintf(f, "%d %d %zu", rc.lost ? 1 : 0, rc.frame48, rc.pkt.size()); for (auto b : rc.pkt) fprintf(f, " %d", b); fprintf(f, "\n"); } fclose(f); }
    }
    const int u = dfs / 400;                       // 2.5 ms at the receiver rate
    size_t npk = log.size(), pci = 0;
    std::vector<float> recentL;                    // last second of L output (for the boundedness clause)
    std::vector<double> ref_peak;                  // peak of the loss-free twin's output per packet
    struct Pending { size_t k; double pk; bool fec; int mode; double cng; double recentL; }; std::vector<Pending> pending;   // isolated concealed frames waiting for packet k+1 of the reference
    const size_t recent_cap = (size_t)dfs * dch;        // 1 s
    auto push_recent = [&](const std::vector<float> &v) { recentL.insert(recentL.end(), v.begin(), v.end()); if (recentL.size() > recent_cap) recentL.erase(recentL.begin(), recentL.end() - (long)recent_cap); };
    // recovery bookkeeping
    long last_loss = -1; double rec_err = 0, rec_ref = 0; long rec_samples = 0; int64_t since_resume48 = 0; bool all_celt_since = true, flushed = false; int64_t silent_run48 = 0, since_flush48 = 0;
    // decay bookkeeping
    double preloss_rms = 0; int64_t conceal_run48 = 0, active_run48 = 0; double decay_last_rms = -1; bool cng_may_be_armed = false, in_step = true; int64_t clean_run48 = 0; double cng_level = 0;
    // FEC probe accumulators
    double fec_err = 0, plc_err = 0, fec_lvl_err = 0, plc_lvl_err = 0; long fec_events = 0, fec_worse = 0;
    int last_rx_mode = -1;   // mode of the last packet L actually decoded (-1: none yet)
    for (size_t k = 0; k < npk; k++) {
      while (pci < pol_changes.size() && pol_changes[pci].first <= k) pol = pol_changes[pci++].second;
      Rec &rc = log[k];
      int n = (int)((int64_t)rc.frame48 * dfs / 48000);
      std::vector<float> pr, pl, pp; bool fin = true, can = true;
      int rr = Rd.decode(rc.pkt.data(), (int)rc.pkt.size(), n, 0, FMT_F32, &pr, nullptr, &can, &fin);
      (void)rr;   // the loss-free twin is an instrument, not a subject
      ref_peak.push_back(peak(pr));
      while (!pending.empty() && pending.front().k + 1 <= k) {
        Pending q = pending.front(); pending.erase(pending.begin());
        double nb = q.cng; for (size_t j = q.k - 2; j <= q.k + 1 && j < ref_peak.size(); j++) nb = std::max(nb, ref_peak[j]);
        // (the property bounds a concealed frame by what this decoder itself played recently; where the faulty receiver has been playing
        //  much louder than the loss-free twin - e.g. it missed the first MDCT frame after a mode switch and decoded the following ones
        //  from reset band energies - its own level is the reference and the twin's neighbourhood says nothing)
        if (nb >= 0.01 && q.recentL <= 2.0 * nb) {
          long milli = (long)(q.pk / nb * 1000); if (run.stat["max:conceal_vs_neighbourhood_milli"] < milli) run.stat["max:conceal_vs_neighbourhood_milli"] = milli;
          run.count("bounded_neighbourhood_checked");
          if (getenv("OPSIM_CALIB") && milli > 1200) fprintf(stderr, "C09NB ratio=%.3f nb=%.4f pk=%.4f mode=%d fec=%d seed=%llu k=%zu\n", milli / 1000.0, nb, q.pk, q.mode, (int)q.fec, (unsigned long long)cur_seed, q.k);
          if (q.pk > KAPPA_NB * nb) REPORT(run, prop, "isolated_concealment_louder_than_neighbourhood", "concealed frame peak %.4f vs %.4f in the loss-free twin's packets %zu..%zu (x%.1f)", q.pk, nb, q.k - 2, q.k + 1, q.pk / nb);
        }
      }
      run.sim_samples48 += rc.frame48;
      if (!rc.lost) {
        int lr = Ld.decode(rc.pkt.data(), (int)rc.pkt.size(), n, 0, FMT_F32, &pl, nullptr, &can, &fin);
        if (lr != n) REPORT(run, prop, "received_packet_wrong_count", "packet %zu: %d vs %d", k, lr, n);
        if (Ld.final_range() != rc.enc_range) REPORT(run, prop, "received_packet_final_range_mismatch", "packet %zu after %s: enc %08x dec %08x (toc %02x)", k, last_loss >= 0 ? "earlier loss" : "no loss", rc.enc_range, Ld.final_range(), rc.pkt[0]);
        int qr = Pd.decode(rc.pkt.data(), (int)rc.pkt.size(), n, 0, FMT_F32, &pp, nullptr, &can, &fin);
        if (qr != n || Pd.final_range() != rc.enc_range) REPORT(run, prop, "received_packet_final_range_mismatch", "PLC-only replica, packet %zu", k);
        run.api_ok += 2; run.count("rx_received"); last_rx_mode = rc.mode;
        if (conceal_run48 > 0) { conceal_run48 = 0; }
        preloss_rms = sqrt(energy(pl) / std::max<size_t>(1, pl.size()));
        clean_run48 += rc.frame48;
        { double e = 0, er = energy(pr); for (size_t i = 0; i < pr.size() && i < pl.size(); i++) { double dd = (double)pl[i] - pr[i]; e += dd * dd; } in_step = er <= 0 ? e <= 1e-9 : e / er <= 0.01; }   // L within -20 dB of the loss-free twin on this packet
        if (rc.vad_active) active_run48 += rc.frame48; else active_run48 = 0;
        if (rc.mode != 2 && !rc.vad_active) { cng_may_be_armed = true; cng_level = peak(pl); }   // what the comfort-noise generator holds: its gain falls to a quieter inactive frame at once and rises slowly, so the most recent inactive frame bounds it from above
        // ---- recovery: L converges back to R once losses stop
        if (last_loss >= 0 && run.verbose) { double e = 0, er = energy(pr); for (size_t i = 0; i < pr.size() && i < pl.size(); i++) { double d = (double)pl[i] - pr[i]; e += d * d; }
          printf("ok k=%zu toc=%02x mode=%d fam=%d silent=%d errdb=%.1f rmsR=%.4f rmsL=%.4f since=%lld\n", k, rc.pkt[0], rc.mode, rc.fam, (int)rc.silent_in, er > 0 ? 10 * log10(std::max(e / er, 1e-12)) : -999.0, sqrt(er / pr.size()), sqrt(energy(pl) / pl.size()), (long long)(since_resume48 / 48)); }
        if (last_loss >= 0) {
          since_resume48 += rc.frame48;
          if (rc.mode != 2) all_celt_since = false;
          if (rc.silent_in) silent_run48 += rc.frame48; else { if (silent_run48 >= 100 * 48) flushed = true; silent_run48 = 0; }
          if (flushed) since_flush48 += rc.frame48;
          // SILK / hybrid: only speech-like (pausing) or noise-like material after the flush - a stationary periodic signal keeps a
          // long-term-predictor mismatch alive indefinitely in a healthy decoder
          bool flushable_src = rc.fam == SRC_VOICED || rc.fam == SRC_NOISE || rc.fam == SRC_SILENCE;
          if (!flushable_src) { flushed = false; since_flush48 = 0; silent_run48 = 0; }
          // (mono streams only for SILK / hybrid: in a stereo stream the side-channel decoder idles through mid-only frames and keeps a
          //  loss-induced mismatch until it is used again, however long that takes)
          bool window = (all_celt_since && since_resume48 > 250 * 48) || (!all_celt_since && S.enc.L.ch == 1 && flushed && since_flush48 > 250 * 48);
          double eref = energy(pr);
          if (window && !rc.silent_in && sqrt(eref / std::max<size_t>(1, pr.size())) > 0.00316) {
            double e = 0; for (size_t i = 0; i < pr.size() && i < pl.size(); i++) { double d = (double)pl[i] - pr[i]; e += d * d; }
            rec_err += e; rec_ref += eref; rec_samples += (long)pr.size();
          }
        }
        run.ev(hash_bytes(pl.data(), pl.size() * sizeof(float)));
        push_recent(pl);
        continue;
      }
      // ---- packet k is lost at play-out time
      run.count("rx_lost");
      if (last_loss >= 0 && rec_samples >= (long)dfs / 5 * dch) finish_recovery(rec_err, rec_ref, rec_samples, all_celt_since);
      last_loss = (long)k; since_resume48 = 0; all_celt_since = true; flushed = false; silent_run48 = 0; since_flush48 = 0; rec_err = rec_ref = 0; rec_samples = 0;
      bool next_ok = k + 1 < npk && !log[k + 1].lost;
      double recent_peak = peak(recentL);
      // PLC-only replica
      conceal(Pd, n, 0, pp, "P");
      bool used_fec = false;
      if (pol.fec && next_ok) {
        Rec &nx = log[k + 1];
        int fs_req = n;
        // FEC call with a frame_size larger than the packet's: the receiver fetches "the gap" in one call (here: the lost frame plus
        // extra concealment in front of it when the previous packet was lost too and has not been played yet - modelled as slack)
        int extra = 0;
        if (pol.slack && n + pol.slack * u <= dfs * 3 / 25) extra = pol.slack * u;
        std::vector<float> part;
        // "and otherwise behaves like concealment": where the library has no redundant copy to use at all - the following packet or the
        // stream so far is MDCT-only - an FEC request is, exactly, a concealment request of the same length. A byte copy of the receiver
        // (C12: decoder state is freely copyable) conceals instead; PCM and the state left behind (next regular decode) must be identical.
        std::vector<unsigned char> twin_state; std::vector<float> twin_pcm; bool twin = false;
        if (Ld.d && (toc_mode(nx.pkt[0]) == 2 || last_rx_mode == 2 || opus_packet_get_samples_per_frame(nx.pkt.data(), dfs) > fs_req + extra)) {
          size_t sz = (size_t)opus_decoder_get_size(dch); twin_state.resize(sz); memcpy(twin_state.data(), Ld.d, sz); twin = true;
        }
        int r = Ld.decode(nx.pkt.data(), (int)nx.pkt.size(), fs_req + extra, 1, FMT_F32, &part, nullptr, &can, &fin);
        if (twin && r == fs_req + extra) {
          std::vector<unsigned char> after((size_t)opus_decoder_get_size(dch)); memcpy(after.data(), Ld.d, after.size());
          memcpy(Ld.d, twin_state.data(), twin_state.size());
          bool f2 = true, c2 = true; int r2 = Ld.decode(nullptr, 0, fs_req + extra, 0, FMT_F32, &twin_pcm, nullptr, &c2, &f2);
          run.count("fec_vs_plc_exact_checked");
          if (r2 != r || twin_pcm.size() != part.size() || memcmp(twin_pcm.data(), part.data(), part.size() * sizeof(float)) != 0)
            REPORT(run, prop, "fec_without_redundancy_differs_from_concealment", "packet %zu lost, next toc %02x, previous mode %d: FEC call returned %d, concealment on a byte copy of the same decoder %d, PCM %s", k, nx.pkt[0], last_rx_mode, r, r2, twin_pcm.size() == part.size() ? "differs" : "length differs");
          // (continue with the state the FEC call left: that is what a real receiver has)
          memcpy(Ld.d, after.data(), after.size());
        }
        if (r != fs_req + extra) REPORT(run, prop, "fec_wrong_count", "packet %zu: asked %d got %d (next toc %02x lbrr %d)", k, fs_req + extra, r, nx.pkt[0], nx.lbrr);
        if (!fin) REPORT(run, prop, "fec_nonfinite", "packet %zu", k);
        if (!can) REPORT(run, prop, "fec_wrote_past_buffer", "packet %zu", k);
        // the last n samples cover the lost frame
        pl.assign(part.end() - (long)((size_t)n * dch), part.end());
        used_fec = true; run.api_ok++; run.count(nx.lbrr == 1 ? "fec_with_lbrr" : "fec_without_lbrr");
        if (extra) run.count("fec_larger_frame_size");
        if (extra && pol.slack % 4) run.count("fec_larger_frame_size_not_multiple_of_10ms");
      } else {
        conceal(Ld, n, pol.piece ? pol.piece * u : 0, pl, "L");
        if (pol.piece) run.count("plc_in_pieces");
        if (pol.piece == 3 || pol.piece >= 5) run.count("plc_in_pieces_of_7_5_12_5_15_17_5_ms");
      }
      if (run.verbose) printf("lost k=%zu toc=%02x mode=%d n=%d fec=%d next_toc=%02x next_lbrr=%d next_len=%zu peakL=%.4f peakP=%.4f peakR=%.4f recent=%.4f in_rms=%.4f\n", k, rc.pkt[0], rc.mode, n, (int)used_fec, next_ok ? log[k + 1].pkt[0] : 0, next_ok ? log[k + 1].lbrr : -1, next_ok ? log[k + 1].pkt.size() : 0, peak(pl), peak(pp), peak(pr), recent_peak, rc.in_rms);
      // a frame_size that is not a multiple of 2.5 ms must be refused (and must not consume the concealment)
      if (k % 7 == 3) {
        std::vector<float> junk; int bad = Pd.fs / 400 + 1;
        ExactBuf ob((size_t)bad * dch * 4, 0xFF);
        int r = opus_decode_float(Pd.d, nullptr, 0, (float *)ob.p, bad, 0);
        if (r != OPUS_BAD_ARG) REPORT(run, prop, "plc_odd_frame_size_accepted", "frame_size %d returned %d", bad, r);
        run.count("odd_frame_size_checked");
      }
      // ---- bounded: concealed output never exceeds a bounded multiple of the recently decoded level
      bool history_ok = recentL.size() >= (size_t)dfs * 3 / 10 * dch;   // at least 300 ms decoded so far
      // a mono receiver of a stereo stream plays L+R: channels in (partial) anti-phase cancel in the decoded output but not in the
      // concealment, whose noise-based stage is uncorrelated between the channels - "the recently decoded level" then says nothing
      // about the level of the material being concealed
      if (S.enc.L.ch == 2 && dch == 1) history_ok = false;
      bool concealment_only = !used_fec || log[k + 1].lbrr != 1;   // an FEC frame with LBRR carries new audio: it may legitimately be louder than anything before
      if (concealment_only && history_ok && (clean_run48 >= 150 * 48 || conceal_run48 > 0)) {   // first loss after >= 150 ms of clean reception, or the continuation of a loss run
        // comfort noise plays, by design, the level of what the encoder flagged as inactive background, however long ago: the reference
        // level is the louder of the last second and the most recent VAD-inactive SILK frame received
        recent_peak = std::max(recent_peak, cng_level);
        double pk = peak(pl);
        if (recent_peak > 0 || pk > 0) {
          long ratio_milli = (long)(pk / std::max(recent_peak, 1e-4) * 1000);
          if (recent_peak >= 0.001) { if (run.stat["max:conceal_peak_ratio_milli"] < ratio_milli) run.stat["max:conceal_peak_ratio_milli"] = ratio_milli; run.count("bounded_checked"); }
          if (getenv("OPSIM_CALIB") && recent_peak >= 0.001 && ratio_milli > 2000) fprintf(stderr, "C09PEAK ratio=%.3f recent=%.4f pk=%.4f fec=%d mode=%d fs=%d k=%zu seed=%llu\n", ratio_milli / 1000.0, recent_peak, pk, (int)used_fec, rc.mode, dfs, k, (unsigned long long)cur_seed);
          if (recent_peak >= 0.005 && pk > KAPPA * recent_peak) REPORT(run, prop, "concealed_output_not_bounded", "peak %.4f vs recent peak %.4f (x%.1f), packet %zu, %s", pk, recent_peak, pk / std::max(recent_peak, 1e-4), k, used_fec ? "FEC" : "PLC");
        }
      }
      // ---- bounded, sharper form for isolated losses: the concealed frame against what the loss-free twin plays in the same
      // neighbourhood (packets k-2 .. k+1) - an extrapolation of a healthy state cannot be much louder than the signal around it
      // (only while the comfort-noise generator has nothing to play: once a SILK packet flagged as inactive has been received, the level
      //  added to every concealed frame is that of the learnt background, by design unrelated to the signal around the loss)
      // (and only where the decoder can be taken to be in step with the encoder: no loss during the previous second, not within the first
      //  second of the stream, the last received packet decoded within -20 dB of the loss-free twin, and speech-like or noise-like material - a SILK decoder whose predictor state differs from the encoder's can
      //  ring up on steady tones and sweeps for hundreds of milliseconds, see DESIGN.md 10.4)
      bool benign_src = rc.fam == SRC_VOICED || rc.fam == SRC_ONSETS || rc.fam == SRC_STEADYVOICED || rc.fam == SRC_NOISE || rc.fam == SRC_SILENCE;
      if (concealment_only && history_ok && in_step && benign_src && clean_run48 >= 150 * 48 && S.t48 >= 0 && k >= 2 && !log[k - 1].lost) pending.push_back(Pending{k, peak(pl), used_fec, rc.mode, cng_level, peak(recentL)});
      const bool fec_after_clean_run = in_step && clean_run48 >= 150 * 48;   // (the receiver had been decoding in step with the encoder: >= 150 ms since the last loss, last packet within -20 dB of the twin)
      clean_run48 = 0;
      // ---- decay under sustained loss (decay-probe sessions: loud voiced / tonal burst after a quiet lead-in)
      conceal_run48 += rc.frame48;
      // (SILK's comfort-noise generator keeps, by design, the level of what the encoder flagged as inactive background: the decay clause is
      //  only claimed when the 500 ms before the loss were coded as active - or by the MDCT layer alone)
      if (!used_fec && conceal_run48 >= 1000 * 48 && flavour == 2 && preloss_rms > 0.03 && active_run48 >= 500 * 48) {
        size_t tail = std::min(pl.size(), (size_t)dfs / 50 * dch);
        std::vector<float> t(pl.end() - (long)tail, pl.end());
        decay_last_rms = sqrt(energy(t) / std::max<size_t>(1, t.size())) / preloss_rms;
      }
      // ---- FEC level, per SILK frame: where the following packet carries a redundant copy of exactly this 20 ms frame and the frame was
      // loud, the reconstruction is not near-silence (every flavour; mono streams, isolated losses, same packet duration on both sides)
      if (used_fec && fec_after_clean_run && k + 1 < npk && (k == 0 || !log[k - 1].lost) && log[k + 1].frame48 == rc.frame48 && !pr.empty() && pl.size() == pr.size()) {
        int mid = 0, side = 0, nf = opsim_silk_lbrr_flags(log[k + 1].pkt.data(), (int)log[k + 1].pkt.size(), &mid, &side);
        // (only where the redundant copy is coded at a useful rate: the encoder coarsens the LBRR quantiser by up to 7 gain steps when the
        //  expected loss is low - at 1 % a steady 3 kHz tone is quantised to an all-zero excitation and the copy is, by design, near-silent;
        //  from 13 % on the coarsening is at its minimum of 2 steps)
        if (log[k + 1].loss_perc < 13) nf = -1;
        // (hybrid packets: the redundant copy carries the band below 8 kHz only - a sweep or tone above it is, by design, absent from it;
        //  judged for speech-like families, whose energy sits in the lower band)
        if (toc_mode(rc.pkt[0]) == 1 && !(rc.fam == SRC_VOICED || rc.fam == SRC_ONSETS || rc.fam == SRC_STEADYVOICED)) nf = -1;
        if (nf > 0 && (log[k + 1].pkt[0] & 4) == (rc.pkt[0] & 4) && (k < 1 || (log[k - 1].pkt[0] & 4) == (rc.pkt[0] & 4)) && (rc.pkt[0] & 3) == 0 && (rc.pkt[0] >> 3) == (log[k + 1].pkt[0] >> 3) && k >= 1 && (log[k - 1].pkt[0] >> 3) == (rc.pkt[0] >> 3)) {   // same mode, bandwidth and duration before, at and after the loss
          size_t per = pr.size() / (size_t)nf;
          for (int f = 0; f < nf; f++) if ((mid >> f) & 1) {
            double er = 0, ef = 0;
            for (size_t i = (size_t)f * per; i < (size_t)(f + 1) * per; i++) { er += (double)pr[i] * pr[i]; ef += (double)pl[i] * pl[i]; }
            er = sqrt(er / per); ef = sqrt(ef / per);
            if (er < 0.03 || rc.in_rms < 0.03) continue;
            // the level to reach is the quieter of what the loss-free twin plays and what the encoder was given: on decaying or swept material
            // the regular decode can be several times louder than the input (gain-decrease clamp, resonating synthesis filter) while the
            // redundant copy, coded afresh, follows the input
            double er_hi = std::max(er, rc.in_rms); bool st2 = (rc.pkt[0] & 4) != 0;
            er = std::min(er, rc.in_rms);
            run.count("fec_frame_level_checked"); if (f > 0 && !((mid >> (f - 1)) & 1)) run.count("fec_frame_level_checked_first_lbrr_frame_not_first");
            long milli = (long)(std::max(0.0, 1.0 - ef / er) * 1000); if (run.stat["max:fec_frame_level_deficit_milli"] < milli) run.stat["max:fec_frame_level_deficit_milli"] = milli;
            if (getenv("OPSIM_CALIB")) fprintf(stderr, "C09FECLVL ratio=%.4f ref=%.4f f=%d nf=%d flags=%d mode=%d fam=%d seed=%llu k=%zu hi=%.4f st=%d\n", ef / er, er, f, nf, mid, rc.mode, rc.fam, (unsigned long long)cur_seed, k, ef / er_hi, (int)st2);
            else if (ef > UPSILON * er_hi) REPORT(run, prop, "fec_frame_with_lbrr_data_far_too_loud", "packet %zu, SILK frame %d of %d: loss-free rms %.4f, input rms %.4f, FEC rms %.4f (x%.1f)", k, f, nf, er, rc.in_rms, ef, ef / er_hi);
            else if (ef < (flavour == 1 ? LAMBDA_PROBE : LAMBDA) * er) REPORT(run, prop, "fec_frame_with_lbrr_data_near_silent", "packet %zu, SILK frame %d of %d (LBRR flags of the next packet: %d%d%d): loss-free rms %.4f, FEC rms %.4f (x%.3f)", k, f, nf, mid & 1, (mid >> 1) & 1, (mid >> 2) & 1, er, ef, ef / er);
          }
        }
      }
      // ---- FEC gain (FEC-probe sessions: isolated losses, LBRR present)
      if (flavour == 1 && used_fec && log[k + 1].lbrr == 1 && (k == 0 || !log[k - 1].lost) && energy(pr) > 0) {
        double ef = 0, ep = 0;
        for (size_t i = 0; i < pr.size(); i++) { double a = (double)pl[i] - pr[i], b = (double)pp[i] - pr[i]; ef += a * a; ep += b * b; }
        fec_err += ef; plc_err += ep; fec_events++; if (ef > ep) fec_worse++;
        { double rr = sqrt(energy(pr) / pr.size()), rf = sqrt(energy(pl) / pl.size()), rp = sqrt(energy(pp) / pp.size()); fec_lvl_err += (rf - rr) * (rf - rr); plc_lvl_err += (rp - rr) * (rp - rr); }
        if (getenv("OPSIM_CALIB")) fprintf(stderr, "C09FECEV ef=%.6g ep=%.6g eref=%.6g mode=%d\n", ef, ep, energy(pr), rc.mode);
      }
      run.ev(hash_bytes(pl.data(), pl.size() * sizeof(float)));
      push_recent(pl);
      run.sg(mix64((uint64_t)(rc.pkt[0] >> 3), (uint64_t)(used_fec * 2 + next_ok)));
    }
    if (last_loss >= 0 && rec_samples >= (long)dfs / 5 * dch) finish_recovery(rec_err, rec_ref, rec_samples, all_celt_since);
    if (decay_last_rms >= 0) {
      run.count("decay_checked");
      long milli = (long)(decay_last_rms * 1000); if (run.stat["max:decay_ratio_milli"] < milli) run.stat["max:decay_ratio_milli"] = milli;
      if (getenv("OPSIM_CALIB")) fprintf(stderr, "C09DECAY ratio=%.4f seed=%llu\n", decay_last_rms, (unsigned long long)cur_seed);
      if (decay_last_rms > RHO) REPORT(run, prop, "concealment_does_not_decay", "after >= 1 s of loss the last 20 ms are at %.3f of the pre-loss rms", decay_last_rms);
    }
    if (fec_events >= 30 && plc_err > 0) {
      double ratio = fec_err / plc_err;
      run.count("fec_gain_checked"); long milli = (long)(ratio * 1000); if (run.stat["max:fec_vs_plc_error_milli"] < milli) run.stat["max:fec_vs_plc_error_milli"] = milli;
      if (getenv("OPSIM_CALIB")) fprintf(stderr, "C09FEC ratio=%.4f events=%ld seed=%llu fms=%d ch=%d lvl=%.4f worse=%.3f\n", ratio, fec_events, (unsigned long long)cur_seed, log.empty() ? 0 : log.back().frame48 / 48, S.enc.L.ch, plc_lvl_err > 0 ? fec_lvl_err / plc_lvl_err : -1.0, (double)fec_worse / fec_events);
      int fms = log.empty() ? 20 : log.back().frame48 / 48;
      // thresholds per (channels, packet duration) cell, >= 2x the worst of 96 000 calibration sessions (two rounds, the second with the abrupt-onset source and the LBRR gain fix) (calib/thresholds.json C09.fec_gain):
      // the summed-error ratio has a fat tail (a handful of events dominate the sums), the per-event "FEC frame farther from the
      // loss-free frame than the concealed one" fraction is the robust companion
      int cell = (S.enc.L.ch == 2 ? 3 : 0) + (fms <= 20 ? 0 : fms <= 40 ? 1 : 2);
      static const double ALPHA_CELL[6] = {0.80, 2.35, 1.80, 0.66, 1.50, 2.10}, BETA_CELL[6] = {0.38, 0.45, 0.41, 0.19, 0.39, 0.55};
      double alpha = ALPHA_CELL[cell], beta = BETA_CELL[cell];
      double worse = (double)fec_worse / fec_events;
      long wm = (long)(worse * 1000); if (run.stat["max:fec_worse_than_plc_fraction_milli"] < wm) run.stat["max:fec_worse_than_plc_fraction_milli"] = wm;
      if (worse > beta) REPORT(run, prop, "fec_frame_often_worse_than_concealment", "the FEC frame is farther from the loss-free frame than the concealed one in %.0f %% of %ld isolated losses with LBRR (bound %.0f %%), %d ms packets, %d channel(s)", 100 * worse, fec_events, 100 * beta, fms, S.enc.L.ch);
      if (ratio > alpha) REPORT(run, prop, "fec_not_better_than_plc", "error energy FEC/PLC = %.3f (bound %.2f) over %ld isolated losses with LBRR, %d ms packets, %d channel(s)", ratio, alpha, fec_events, fms, S.enc.L.ch);
    }
  }
  // calibrated bounds (calib/thresholds.json C09.*)
  static constexpr double KAPPA_NB = 11.0; double KAPPA = 36.0;   // (a regression plan may carry its own, plan-specific bound in the header) 
  static constexpr double RHO = 0.1, THETA_DB = -20.0; double LAMBDA = 0.02, LAMBDA_PROBE = 0.08, UPSILON = 15.0;   // (a regression plan may carry its own, sharper bound in the header)
  void finish_recovery(double err, double ref, long samples, bool celt) {
    if (ref <= 0) return;
    double db = 10 * log10(std::max(err / ref, 1e-12));
    run.count(celt ? "recovery_checked_celt" : "recovery_checked_flushed");
    std::string k = celt ? "max:recovery_err_centidb_plus10000_celt" : "max:recovery_err_centidb_plus10000_flushed";
    long v = (long)(db * 100) + 10000; if (run.stat[k] < v) run.stat[k] = v;
    if (getenv("OPSIM_CALIB")) fprintf(stderr, "C09REC %s db=%.2f samples=%ld fs=%d ch=%d seed=%llu\n", celt ? "celt" : "flushed", db, samples, dfs, dch, (unsigned long long)cur_seed);
    // SILK / hybrid: probe only. Even after a silent gap and on speech-like material a healthy decoder was measured not to reconverge in
    // ~3 % of sessions (idle side channel, bandwidth switches, long-term predictor), so no verdict is attached; CELT-only streams always did.
    if (!celt) return;
    if (db > THETA_DB) REPORT(run, prop, celt ? "no_recovery_after_loss_celt" : "no_recovery_after_loss_flushed", "segmental error %.1f dB over %ld samples, more than 250 ms after %s", db, samples, celt ? "packets resumed (CELT-only)" : "the first silent gap after packets resumed");
  }

  void go(const Plan &p) {
    cur_seed = p.seed;
    { auto it = p.hdr.find("kappa"); if (it != p.hdr.end() && atof(it->second.c_str()) > 1) KAPPA = atof(it->second.c_str()); }
    { auto it = p.hdr.find("lambda"); if (it != p.hdr.end() && atof(it->second.c_str()) > 0) LAMBDA = LAMBDA_PROBE = atof(it->second.c_str()); }
    for (size_t i = 0; i < p.ops.size(); i++) {
      const Op &op = p.ops[i]; run.cur_op = (int)i;
      if (op.k == "ENCNEW") { Op o2 = op; o2.a[0] = K_SINGLE; S.op_encnew(o2, run); }
      else if (op.k == "RXNEW") { dfs = kRates[((op.arg(0) % 5) + 5) % 5]; dch = (int)(1 + ((op.arg(1) % 2) + 2) % 2);
        rx_cap = (int)op.arg(2, -1);
        have_rx = Ld.create_single(dfs, dch, (int)op.arg(2, -1)) == OPUS_OK && Pd.create_single(dfs, dch, (int)op.arg(2, -1)) == OPUS_OK && Rd.create_single(dfs, dch, (int)op.arg(2, -1)) == OPUS_OK; }
      else if (op.k == "FLAVOUR") flavour = (int)op.arg(0);
      else if (op.k == "WINDOW") { win_at = (long)std::max<int64_t>(0, op.arg(0)); win_k = (int)std::min<int64_t>(12, std::max<int64_t>(1, op.arg(1, 4))); }
      else if (op.k == "CTL") { if (S.enc.alive()) { int r = S.enc.set((int)op.arg(0), (int)op.arg(1)); run.ev((uint64_t)r); if (r == OPUS_OK && op.arg(0) == OPUS_SET_EXPERT_FRAME_DURATION_REQUEST) S.expert_dur = (int)op.arg(1); } }
      else if (op.k == "SRC") S.op_src(op);
      else if (op.k == "ENC") op_enc(op);
      else if (op.k == "NET") op_net(op);
      else if (op.k == "RXPOL") { Pol q; q.fec = (int)op.arg(0) != 0; static const int pc[] = {0, 1, 2, 4, 8};
        // (arguments 0..4 keep their first meaning - pieces of 0 / 2.5 / 5 / 10 / 20 ms, slack in steps of 10 ms - so that older plans replay unchanged;
        //  5 and above select every multiple of 2.5 ms: pieces of 2.5 .. 20 ms, slack of 2.5 .. 40 ms)
        int64_t a1 = op.arg(1), a2 = op.arg(2);
        q.piece = a1 >= 5 ? (int)((a1 - 5) % 8) + 1 : pc[(size_t)(((a1 % 5) + 5) % 5)];
        q.slack = a2 >= 5 ? (int)((a2 - 5) % 16) + 1 : (int)(((a2 % 5) + 5) % 5) * 4; pol_changes.push_back({log.size(), q}); }
    }
    if (win_at < 0 || !have_rx) { playout(); return; }
    // window enumeration: the sender's packet log is fixed; every loss pattern over the k packets of the window (all 2^k of them, the
    // empty one included as the fault-free control) is played out through fresh receivers, each under every oracle above
    if ((size_t)win_at + (size_t)win_k > log.size()) { if (log.size() < (size_t)win_k + 1) { playout(); return; } win_at = (long)(log.size() - (size_t)win_k - 1); }
    std::vector<char> base(log.size()); for (size_t i = 0; i < log.size(); i++) base[i] = log[i].lost;
    const Pol pol0 = pol;
    for (unsigned pat = 0; pat < (1u << win_k); pat++) {
      for (size_t i = 0; i < log.size(); i++) log[i].lost = base[i];
      for (int b = 0; b < win_k; b++) log[(size_t)win_at + (size_t)b].lost = (pat >> b) & 1;
      pol = pol0;
      if (Ld.create_single(dfs, dch, rx_cap) != OPUS_OK || Pd.create_single(dfs, dch, rx_cap) != OPUS_OK || Rd.create_single(dfs, dch, rx_cap) != OPUS_OK) return;
      run.ev((uint64_t)pat); run.count("window_patterns_played"); if (pat) run.fired = true;
      playout();
    }
    run.count("window_sessions"); run.stat["max:window_bits"] = std::max<long>(run.stat["max:window_bits"], win_k);
  }
};

void gen_enc_setup(Rng &r, Plan &p, bool fec_friendly) {
  int fsidx = (int)r.weighted({1, 1, 3, 2, 4}), ch = (int)r.range(1, 2);
  p.ops.push_back(mkop("ENCNEW", {K_SINGLE, fsidx, ch, r.range(0, 2), 0, 0, r.chance(0.7) ? -1 : r.range(0, 4), (int64_t)r.range(1, 1 << 30)}));
  p.ops.push_back(mkop("RXNEW", {r.range(0, 4), r.range(0, 1), r.chance(0.7) ? -1 : r.range(0, 4)}));
  p.ops.push_back(mkop("CTL", {OPUS_SET_DTX_REQUEST, 0}));
  if (fec_friendly) {
    p.ops.push_back(mkop("CTL", {OPUS_SET_INBAND_FEC_REQUEST, r.pick({1, 1, 2})}));
    p.ops.push_back(mkop("CTL", {OPUS_SET_PACKET_LOSS_PERC_REQUEST, r.pick({5, 10, 20, 30, 50})}));
    p.ops.push_back(mkop("CTL", {OPUS_SET_BITRATE_REQUEST, r.pick({12000, 16000, 20000, 24000, 32000, 40000, 48000})}));
    if (r.chance(0.7)) p.ops.push_back(mkop("CTL", {11002, r.pick({1000, 1000, 1001})}));
  } else {
    if (r.chance(0.5)) p.ops.push_back(mkop("CTL", {OPUS_SET_BITRATE_REQUEST, r.pick({8000, 12000, 16000, 24000, 32000, 64000, 96000, 128000})}));
    if (r.chance(0.6)) p.ops.push_back(mkop("CTL", {11002, r.pick({1000, 1001, 1002, 1002})}));
    if (r.chance(0.3)) { p.ops.push_back(mkop("CTL", {OPUS_SET_INBAND_FEC_REQUEST, r.range(0, 2)})); p.ops.push_back(mkop("CTL", {OPUS_SET_PACKET_LOSS_PERC_REQUEST, r.pick({0, 10, 30})})); }
    if (r.chance(0.3)) p.ops.push_back(mkop("CTL", {OPUS_SET_COMPLEXITY_REQUEST, r.range(0, 10)}));
    if (r.chance(0.2)) p.ops.push_back(mkop("CTL", {OPUS_SET_VBR_REQUEST, r.range(0, 1)}));
  }
}

Plan gen(uint64_t seed, int tier) {
  Rng r(seed);
  Plan p; p.hdr["scenario"] = "lossy";
  int flavour = r.weighted({7, 2, 1, 1, 1});
  if (const char *ff = getenv("OPSIM_C09_FLAVOUR")) flavour = atoi(ff);   // calibration runs
  p.ops.push_back(mkop("FLAVOUR", {flavour >= 3 ? 0 : flavour}));
  if (flavour == 4) {
    // window enumeration: a short stream (lead-in, window, clean tail), no other loss; all 2^k patterns over the window are played out
    gen_enc_setup(r, p, r.chance(0.6));
    p.ops.push_back(mkop("RXPOL", {r.range(0, 1), r.range(0, 12), r.chance(0.3) ? r.range(1, 20) : 0}));
    p.ops.push_back(mkop("SRC", {r.weighted({1, 0, 4, 2, 6, 3, 1, 1, 2, 0, 0, 0, 4, 1, 1, 2}), r.pick({60, 110, 220, 440, 1000, 3000}), r.pick({30, 100, 300, 500, 900}), r.range(1, 1000), r.pick({0, 300, 600, 2000})}));
    int fidx = r.weighted({0, 1, 3, 8, 3, 3, 0, 0, 0});
    int d48 = kFrames48[fidx];
    int lead = (int)((int64_t)r.pick({100, 320, 400, 700}) * 48 / d48) + 1, tail = (int)((int64_t)r.pick({300, 600, 900}) * 48 / d48) + 1;
    int k = tier ? (int)r.pick({4, 6, 7, 8, 8, 9}) : (int)r.pick({3, 4, 5, 5, 6});
    bool switching = r.chance(0.4);   // mode / bandwidth / duration transitions inside the window
    for (int i = 0; i < lead + k + tail; i++) {
      if (switching && i >= lead - 1 && i < lead + k && r.chance(0.35)) {
        if (r.chance(0.5)) p.ops.push_back(mkop("CTL", {11002, r.pick({1000, 1001, 1002, -1000})}));
        else if (r.chance(0.5)) p.ops.push_back(mkop("CTL", {OPUS_SET_BITRATE_REQUEST, r.pick({8000, 16000, 24000, 48000, 96000})}));
        else fidx = r.weighted({0, 1, 3, 8, 3, 3, 0, 0, 0});
      }
      p.ops.push_back(mkop("ENC", {fidx, 1500, r.range(0, 2)}));
    }
    p.ops.push_back(mkop("WINDOW", {lead, k}));
    return p;
  }
  if (flavour == 3) {
    // frame-duration switches on a narrow / medium band SILK stream with isolated losses: concealment state sized for one frame
    // duration meets buffers last filled under another
    p.ops.push_back(mkop("ENCNEW", {K_SINGLE, r.range(0, 3), r.range(1, 2), r.range(0, 1), 0, 0, r.chance(0.7) ? -1 : r.range(0, 4), (int64_t)r.range(1, 1 << 30)}));
    p.ops.push_back(mkop("RXNEW", {r.range(0, 4), r.range(0, 1), r.chance(0.7) ? -1 : r.range(0, 4)}));
    p.ops.push_back(mkop("CTL", {OPUS_SET_DTX_REQUEST, 0}));
    p.ops.push_back(mkop("CTL", {11002, 1000}));
    if (r.chance(0.7)) p.ops.push_back(mkop("CTL", {OPUS_SET_MAX_BANDWIDTH_REQUEST, r.pick({1101, 1102, 1103})}));
    p.ops.push_back(mkop("CTL", {OPUS_SET_BITRATE_REQUEST, r.pick({12000, 20000, 32000, 40000})}));
    if (r.chance(0.5)) { p.ops.push_back(mkop("CTL", {OPUS_SET_INBAND_FEC_REQUEST, 1})); p.ops.push_back(mkop("CTL", {OPUS_SET_PACKET_LOSS_PERC_REQUEST, r.pick({10, 30})})); }
    p.ops.push_back(mkop("RXPOL", {r.range(0, 1), r.range(0, 12), 0}));
    int nseg = (int)r.range(3, tier ? 12 : 6);
    for (int sgm = 0; sgm < nseg; sgm++) {
      p.ops.push_back(mkop("SRC", {r.pick({(int)SRC_NOISE, (int)SRC_NOISE, (int)SRC_VOICED, (int)SRC_MUSIC, (int)SRC_TONES}), r.pick({110, 220, 1000}), r.pick({10, 30, 100, 300, 900}), r.range(1, 1000), r.pick({0, 300, 2000})}));
      int fi = sgm % 2 == 0 ? r.pick({4, 5, 8, 3}) : r.pick({2, 2, 3});
      int n = (int)r.range(4, 30);
      for (int i = 0; i < n; i++) { p.ops.push_back(mkop("ENC", {fi, 1500, r.range(0, 2)})); if (i > 2 && r.chance(0.08)) p.ops.push_back(mkop("NET", {0})); }
    }
    for (int i = 0; i < 40; i++) p.ops.push_back(mkop("ENC", {3, 1500, 2}));
    return p;
  }
  if (flavour == 1) {
    // FEC probe: voiced harmonic source, SILK-only (in hybrid mode LBRR only carries the lower band), FEC on, one isolated loss every ~300 ms
    // (precondition found by calibration: the redundant copy is only clearly better than concealment when it gets enough bits - narrow or
    //  medium band, mono, >= 32 kb/s, expected loss >= 20 %; at wideband / 20 kb/s / 10 % loss a healthy codec's FEC frame is often no
    //  closer to the original than its concealment, so no claim is checked there)
    // a third of the probes are stereo (twice the rate, stereo receiver): the redundant copy then carries its own stereo predictor and
    // mid-only flags per frame, which have to be read for exactly the frames that have one
    bool st = r.chance(0.34);
    p.ops.push_back(mkop("ENCNEW", {K_SINGLE, r.range(0, 1), st ? 2 : 1, r.range(0, 1), 0, 0, r.chance(0.7) ? -1 : r.range(0, 4), (int64_t)r.range(1, 1 << 30)}));
    p.ops.push_back(mkop("RXNEW", {r.range(0, 4), st ? 1 : r.range(0, 1), r.chance(0.7) ? -1 : r.range(0, 4)}));
    p.ops.push_back(mkop("CTL", {OPUS_SET_DTX_REQUEST, 0}));
    p.ops.push_back(mkop("CTL", {OPUS_SET_INBAND_FEC_REQUEST, 1}));
    p.ops.push_back(mkop("CTL", {11002, 1000}));
    if (st) p.ops.push_back(mkop("CTL", {OPUS_SET_FORCE_CHANNELS_REQUEST, 2}));
    p.ops.push_back(mkop("CTL", {OPUS_SET_BITRATE_REQUEST, (st ? 2 : 1) * r.pick({32000, 36000, 40000})}));
    p.ops.push_back(mkop("CTL", {OPUS_SET_PACKET_LOSS_PERC_REQUEST, r.pick({20, 30, 50})}));
    p.ops.push_back(mkop("RXPOL", {1, 0, 0}));
    // short speech-like bursts with pauses: the level changes from frame to frame, so a frame reconstructed from real data (LBRR)
    // is told apart from an extrapolation of the previous one by its level, whatever the waveform phase does
    // (or, in a third of the probes, bursts with abrupt onsets after digital silence: the first frame of a packet that carries a redundant
    //  copy is then often not its first frame)
    p.ops.push_back(mkop("SRC", {r.chance(0.34) ? SRC_ONSETS : SRC_VOICED, r.pick({110, 150, 220}), r.pick({300, 500, 900}), r.range(1, 1000), r.pick({120, 160, 200, 300})}));
    int fidx = r.pick({3, 3, 4, 5});   // 20 / 40 / 60 ms packets: the redundant copy of every SILK frame of a multi-frame packet must be the right one
    int n = (int)((tier ? 30 : 14) * 1000 / (kFrames48[fidx] / 48)), period = std::max(4, (int)r.pick({170, 230, 290}) / (kFrames48[fidx] / 48));
    for (int i = 0; i < n; i++) { p.ops.push_back(mkop("ENC", {fidx, 1500, 2})); if (i > 10 && i % period == period / 2) p.ops.push_back(mkop("NET", {0})); }
    return p;
  }
  if (flavour == 2) {
    // decay probe: >= 1 s quiet lead-in, loud voiced / tonal burst, then >= 1.2 s of uninterrupted loss
    gen_enc_setup(r, p, r.chance(0.3));
    p.ops.push_back(mkop("RXPOL", {0, r.range(0, 12), 0}));
    int fidx = r.weighted({0, 1, 3, 8, 3, 2, 0, 0, 0});
    int d = kFrames48[fidx] / 48; if (d < 1) d = 1;
    p.ops.push_back(mkop("SRC", {SRC_SILENCE, 0, 0, 1, 0}));
    for (int t = 0; t < 1100; t += std::max(d, 3)) p.ops.push_back(mkop("ENC", {fidx, 1500, 2}));
    // (speech-like harmonic source only: SILK's VAD classifies steady tones, chords and noise as inactive, learns them as background and
    //  its comfort-noise generator then - by design - keeps playing that level for as long as the loss lasts)
    p.ops.push_back(mkop("SRC", {SRC_STEADYVOICED, r.pick({110, 150, 220, 300}), r.pick({300, 500, 900}), r.range(1, 1000), 0}));
    for (int t = 0; t < 900; t += std::max(d, 3)) p.ops.push_back(mkop("ENC", {fidx, 1500, 2}));
    for (int t = 0; t < (int)r.range(1300, 2500); t += std::max(d, 3)) { p.ops.push_back(mkop("ENC", {fidx, 1500, 2})); p.ops.push_back(mkop("NET", {1})); }
    for (int t = 0; t < 600; t += std::max(d, 3)) p.ops.push_back(mkop("ENC", {fidx, 1500, 2}));
    return p;
  }
  gen_enc_setup(r, p, r.chance(0.5));
  p.ops.push_back(mkop("RXPOL", {r.range(0, 1), r.range(0, 12), r.chance(0.3) ? r.range(1, 20) : 0}));
  auto push_src = [&]() { p.ops.push_back(mkop("SRC", {r.weighted({1, 0, 4, 2, 6, 3, 1, 1, 2, 0, 0, 0, 4, 1, 1, 2}), r.pick({60, 110, 220, 440, 1000, 3000}), r.pick({30, 100, 300, 500, 900}), r.range(1, 1000), r.pick({0, 300, 600, 2000})})); };
  push_src();
  int fidx = r.weighted({1, 1, 4, 8, 3, 3, 1, 1, 1});
  int64_t total48 = (int64_t)(tier ? r.range(3, 15) : r.range(2, 5)) * 48000, t = 0;
  int style = r.weighted({3, 3, 2, 2, 1});   // iid, Gilbert-Elliott, periodic, k-bit window pattern, long burst
  double pl = r.pick({0.02, 0.05, 0.1, 0.2, 0.4}); bool bad = false; int period = (int)r.range(3, 20); unsigned pattern = (unsigned)r.range(1, 4095); int idx = 0;
  int64_t burst_at = (int64_t)r.range(500, 2500) * 48, burst_len = (int64_t)r.pick({200, 500, 1000, 3000, 10000}) * 48;
  int64_t quiet_after = total48 - (int64_t)r.pick({600, 1000, 1500}) * 48;   // faults stop here: the recovery clause needs a clean tail
  while (t < total48) {
    if (r.chance(0.03)) push_src();
    if (r.chance(0.05)) fidx = r.weighted({1, 1, 4, 8, 3, 3, 1, 1, 1});
    if (r.chance(0.03)) p.ops.push_back(mkop("CTL", {11002, r.pick({1000, 1001, 1002, -1000})}));
    if (r.chance(0.02)) p.ops.push_back(mkop("CTL", {OPUS_SET_BITRATE_REQUEST, r.pick({8000, 16000, 24000, 48000, 96000})}));
    if (r.chance(0.02)) p.ops.push_back(mkop("RXPOL", {r.range(0, 1), r.range(0, 12), r.chance(0.3) ? r.range(1, 20) : 0}));
    p.ops.push_back(mkop("ENC", {fidx, r.pick({1500, 1500, 1276, 400, 100}), r.range(0, 2)}));
    bool lose = false;
    if (t < quiet_after) {
      switch (style) {
        case 0: lose = r.chance(pl); break;
        case 1: bad = bad ? !r.chance(0.3) : r.chance(pl * 0.5); lose = bad && r.chance(0.8); break;
        case 2: lose = idx % period == 0; break;
        case 3: lose = (pattern >> (idx % 12)) & 1; break;
        case 4: lose = t >= burst_at && t < burst_at + burst_len; break;
      }
      if (!lose && r.chance(0.1)) { p.ops.push_back(mkop("NET", {4})); }        // lose the packet right after a mode / configuration transition
      if (!lose && r.chance(0.01)) p.ops.push_back(mkop("NET", {3}));
    }
    if (lose) p.ops.push_back(mkop("NET", {style == 4 || style == 1 ? 1 : (r.chance(0.1) ? 2 : 0)}));
    t += kFrames48[fidx]; idx++;
  }
  return p;
}

void exec(const Plan &p, Run &run) { Lossy l(run); l.go(p); }

}  // namespace
REGISTER_SCENARIO(C09, "lossy", gen, exec);
