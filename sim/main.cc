// opsim command line: worker loop, plan dump, replay, shrinking.
#include "core.h"
#include <unistd.h>
#include <signal.h>
#include <fcntl.h>
#include <time.h>
#include <sys/wait.h>
#include <sstream>
#include <fstream>

// ------------------------------------------------------------------ registry
static std::vector<Scenario> &registry() { static std::vector<Scenario> r; return r; }
void register_scenario(const Scenario &s) { registry().push_back(s); }
const Scenario *find_scenario(const std::string &prop) {
  for (auto &s : registry()) if (prop == s.prop) return &s;
  return nullptr;
}

// ------------------------------------------------------------------ known findings
static std::vector<std::pair<std::string, std::string>> g_known;  // (property, key)
static void load_known() {
  const char *env = getenv("OPSIM_KNOWN_FINDINGS");
  std::string path = env ? env : std::string(OPSIM_VERIF_DIR) + "/KNOWN_FINDINGS.txt";
  std::ifstream f(path);
  std::string line;
  while (std::getline(f, line)) {
    if (line.rfind("finding:", 0) != 0) continue;
    std::istringstream is(line.substr(8));
    std::string tok, prop, key;
    while (is >> tok) {
      if (tok.rfind("property=", 0) == 0) prop = tok.substr(9);
      else if (tok.rfind("key=", 0) == 0) key = tok.substr(4);
    }
    if (!prop.empty() && !key.empty()) g_known.push_back({prop, key});
  }
}
bool known_finding(const std::string &prop, const std::string &cls) {
  for (auto &k : g_known) if (k.first == prop && k.second == cls) return true;
  return false;
}

// ------------------------------------------------------------------ plan text
std::string Plan::text() const {
  std::ostringstream o;
  o << "# opsim-plan 1\n# prop " << prop << "\n# seed " << seed << "\n# tier " << tier << "\n";
  for (auto &kv : hdr) o << "# " << kv.first << " " << kv.second << "\n";
  for (auto &op : ops) { o << op.k; for (auto v : op.a) o << " " << v; o << "\n"; }
  return o.str();
}
bool Plan::parse(const std::string &txt, Plan &p) {
  std::istringstream is(txt);
  std::string line;
  p = Plan();
  while (std::getline(is, line)) {
    if (line.empty()) continue;
    if (line[0] == '#') {
      std::istringstream ls(line.substr(1));
      std::string k; ls >> k;
      std::string rest; std::getline(ls, rest);
      while (!rest.empty() && rest[0] == ' ') rest.erase(0, 1);
      if (k == "prop") p.prop = rest;
      else if (k == "seed") p.seed = strtoull(rest.c_str(), 0, 10);
      else if (k == "tier") p.tier = atoi(rest.c_str());
      else if (k == "opsim-plan") {}
      else p.hdr[k] = rest;
      continue;
    }
    std::istringstream ls(line);
    Op op; ls >> op.k;
    long long v;
    while (ls >> v) op.a.push_back(v);
    p.ops.push_back(op);
  }
  return !p.prop.empty();
}

// ------------------------------------------------------------------ executing one plan
struct Outcome {
  std::string status;   // ok | VIOL
  std::string cls, detail;
  Run run;
};
static void watchdog(int) { const char m[] = "opsim: watchdog expired\n"; (void)!write(2, m, sizeof m - 1); _exit(78); }

static Outcome execute(const Scenario *sc, const Plan &p, bool verbose = false) {
  Outcome o;
  o.run.verbose = verbose;
  alloc_reset_run();
  g_rand_stream = nullptr; g_arch_cap = -1; g_arch_force = -1;
  alarm(getenv("OPSIM_WATCHDOG") ? atoi(getenv("OPSIM_WATCHDOG")) : 60);
  g_in_run = true; g_ctx = "";
  try {
    sc->exec(p, o.run);
    o.status = "ok";
  } catch (Violation &v) {
    o.status = "VIOL"; o.cls = v.cls; o.detail = v.detail;
  } catch (Fatal &f) {
    o.status = "VIOL";
    // class: assertion site (file:line), stable across data
    std::string w = f.where; size_t sp = w.find(' ');
    o.cls = "assert@" + w.substr(0, sp); o.detail = w;
    if (w.rfind("abort ", 0) == 0) { o.cls = "abort@" + w.substr(6); o.detail = "abort() inside the library (a SILK assertion prints its site to stderr) while: " + w.substr(6); }
    if (known_finding(p.prop, o.cls)) { o.run.known_hits.push_back(o.cls); o.status = "ok"; o.cls.clear(); o.detail.clear(); }
  }
  g_in_run = false;
  alarm(0);
  alloc_reset_run();
  g_rand_stream = nullptr; g_arch_cap = -1;
  return o;
}

static uint64_t run_seed(uint64_t base, const std::string &prop, uint64_t i) {
  return mix64(mix64(base, hash_str(prop.c_str())), i) | 1;
}

static std::string stats_json(const Run &r) {
  std::ostringstream o; o << "{"; bool first = true;
  for (auto &kv : r.stat) { if (!first) o << ","; first = false; o << "\"" << kv.first << "\":" << kv.second; }
  o << "}"; return o.str();
}
static std::string esc(const std::string &s) {
  std::string o; for (char c : s) { if (c == ' ') o += '_'; else if (c == '\n') o += ';'; else o += c; } return o;
}

static double now_s() { struct timespec ts; clock_gettime(CLOCK_MONOTONIC, &ts); return ts.tv_sec + ts.tv_nsec * 1e-9; }

static int cmd_run(int argc, char **argv) {
  std::string prop = argv[2];
  uint64_t base = 1; long from = 0, step = 1, count = 1; int tier = 0; double deadline = 1e9; int samples = 0;
  for (int i = 3; i < argc; i++) {
    std::string a = argv[i];
    auto nx = [&]() { return std::string(i + 1 < argc ? argv[++i] : "0"); };
    if (a == "--base") base = strtoull(nx().c_str(), 0, 10);
    else if (a == "--from") from = atol(nx().c_str());
    else if (a == "--step") step = atol(nx().c_str());
    else if (a == "--count") count = atol(nx().c_str());
    else if (a == "--tier") tier = atoi(nx().c_str());
    else if (a == "--deadline") deadline = atof(nx().c_str());
    else if (a == "--samples") samples = atoi(nx().c_str());
  }
  const Scenario *sc = find_scenario(prop);
  if (!sc) { fprintf(stderr, "no scenario for %s\n", prop.c_str()); return 2; }
  double t0 = now_s();
  for (long i = from; i < count; i += step) {
    if (now_s() - t0 > deadline) { printf("DEADLINE %ld\n", i); fflush(stdout); break; }
    uint64_t seed = run_seed(base, prop, (uint64_t)i);
    printf("BEGIN %ld %llu\n", i, (unsigned long long)seed); fflush(stdout);
    Plan p = sc->gen(seed, tier);
    p.prop = prop; p.seed = seed; p.tier = tier;
    pid_t child = -1;
    if (sc->fork_per_run) {
      // pristine process image per run: this dispatcher never enters libopus; the child does the run and prints the END line
      fflush(stdout); fflush(stderr);
      child = fork();
      if (child > 0) {
        int st = 0; waitpid(child, &st, 0);
        if (WIFEXITED(st) && WEXITSTATUS(st) == 0) continue;
        // crashed / hung inside the run: die the same way so the driver attributes it to the last BEGIN
        fflush(stdout);
        _exit(WIFEXITED(st) ? WEXITSTATUS(st) : 79);
      }
    }
    Outcome o = execute(sc, p);
    bool nontrivial = o.run.fired && o.run.api_ok >= 5;
    printf("END %ld %llu %s %s %016llx %016llx %d %ld %ld %s", i, (unsigned long long)seed, o.status.c_str(),
           o.cls.empty() ? "-" : esc(o.cls).c_str(), (unsigned long long)o.run.evhash, (unsigned long long)o.run.sig,
           nontrivial ? 1 : 0, o.run.sim_samples48, (long)p.ops.size(), stats_json(o.run).c_str());
    if (!o.detail.empty()) printf(" DETAIL %s", esc(o.detail).c_str());
    printf("\n");
    for (auto &k : o.run.known_hits) printf("KNOWN %ld %llu %s\n", i, (unsigned long long)seed, esc(k).c_str());
    if (samples > 0 && i / step < samples) {
      std::string t = p.text();
      printf("SAMPLE %ld %s\n", i, esc(t).c_str());
    }
    fflush(stdout);
    if (child == 0) _exit(0);
  }
  return 0;
}

static bool read_file(const char *path, std::string &out) {
  std::ifstream f(path); if (!f) return false;
  std::stringstream ss; ss << f.rdbuf(); out = ss.str(); return true;
}

static int cmd_dump(int argc, char **argv) {
  std::string prop = argv[2]; uint64_t base = 1; long idx = 0; int tier = 0; uint64_t seed = 0;
  for (int i = 3; i < argc; i++) {
    std::string a = argv[i];
    if (a == "--base") base = strtoull(argv[++i], 0, 10);
    else if (a == "--index") idx = atol(argv[++i]);
    else if (a == "--seed") seed = strtoull(argv[++i], 0, 10);
    else if (a == "--tier") tier = atoi(argv[++i]);
  }
  const Scenario *sc = find_scenario(prop);
  if (!sc) return 2;
  if (!seed) seed = run_seed(base, prop, idx);
  Plan p = sc->gen(seed, tier); p.prop = prop; p.seed = seed; p.tier = tier;
  fputs(p.text().c_str(), stdout);
  return 0;
}

// replay: exit 0 = no violation, 1 = violation (printed), 3 = result differs from the recorded expectation
static int cmd_replay(int argc, char **argv) {
  std::string txt; if (!read_file(argv[2], txt)) { fprintf(stderr, "cannot read %s\n", argv[2]); return 2; }
  bool verbose = false; for (int i = 3; i < argc; i++) if (!strcmp(argv[i], "--verbose")) verbose = true;
  Plan p; if (!Plan::parse(txt, p)) { fprintf(stderr, "bad plan\n"); return 2; }
  const Scenario *sc = find_scenario(p.prop);
  if (!sc) { fprintf(stderr, "no scenario %s\n", p.prop.c_str()); return 2; }
  Outcome o = execute(sc, p, verbose);
  printf("RESULT %s %s %016llx\n", o.status.c_str(), o.cls.empty() ? "-" : esc(o.cls).c_str(), (unsigned long long)o.run.evhash);
  if (!o.detail.empty()) printf("DETAIL %s\n", o.detail.c_str());
  for (auto &k : o.run.known_hits) printf("KNOWN 0 0 %s\n", esc(k).c_str());
  fflush(stdout);
  return o.status == "ok" ? 0 : 1;
}

// ---- shrinking: every candidate runs in a forked child (candidates may crash)
struct ChildRes { std::string cls; uint64_t evhash = 0; };
static ChildRes run_child(const Scenario *sc, const Plan &p) {
  int fd[2]; if (pipe(fd)) return {};
  fflush(stdout); fflush(stderr);
  pid_t pid = fork();
  if (pid == 0) {
    close(fd[0]);
    int devnull = open("/dev/null", 1); if (devnull >= 0) { dup2(devnull, 2); }
    Outcome o = execute(sc, p);
    char buf[600];
    int n = snprintf(buf, sizeof buf, "%s %016llx", o.status == "ok" ? "ok" : esc(o.cls).c_str(), (unsigned long long)o.run.evhash);
    (void)!write(fd[1], buf, n);
    _exit(0);
  }
  close(fd[1]);
  char buf[700]; int n = 0, r;
  while ((r = read(fd[0], buf + n, sizeof buf - 1 - n)) > 0) n += r;
  buf[n] = 0; close(fd[0]);
  int st = 0; waitpid(pid, &st, 0);
  ChildRes cr;
  if (WIFEXITED(st) && WEXITSTATUS(st) == 0 && n > 0) {
    char c[600]; unsigned long long h = 0; sscanf(buf, "%599s %llx", c, &h); cr.cls = c; cr.evhash = h;
  } else if (WIFEXITED(st) && WEXITSTATUS(st) == 77) cr.cls = "crash:sanitizer";
  else if (WIFEXITED(st) && WEXITSTATUS(st) == 78) cr.cls = "crash:hang";
  else if (WIFSIGNALED(st)) cr.cls = strf("crash:signal%d", WTERMSIG(st));
  else cr.cls = strf("crash:exit%d", WIFEXITED(st) ? WEXITSTATUS(st) : -1);
  return cr;
}

static int cmd_shrink(int argc, char **argv) {
  // opsim shrink <in-plan> <out-plan> [--budget n] [--secs s]
  std::string txt; if (!read_file(argv[2], txt)) return 2;
  int budget = 400; double secs = 60;
  for (int i = 4; i < argc; i++) { if (!strcmp(argv[i], "--budget")) budget = atoi(argv[++i]); else if (!strcmp(argv[i], "--secs")) secs = atof(argv[++i]); }
  Plan p; if (!Plan::parse(txt, p)) return 2;
  const Scenario *sc = find_scenario(p.prop); if (!sc) return 2;
  double t0 = now_s(); int execs = 0;
  ChildRes base = run_child(sc, p); execs++;
  if (base.cls == "ok" || base.cls.empty()) { printf("SHRINK noviolation\n"); return 3; }
  std::string want = base.cls;
  auto test = [&](const Plan &q) { if (execs >= budget || now_s() - t0 > secs) return false; execs++; return run_child(sc, q).cls == want; };
  size_t orig = p.ops.size();
  // ddmin over the op list
  size_t n = 2;
  while (p.ops.size() >= 2 && execs < budget && now_s() - t0 < secs) {
    size_t len = p.ops.size(), chunk = (len + n - 1) / n; bool reduced = false;
    for (size_t s = 0; s < len; s += chunk) {
      Plan q = p; q.ops.erase(q.ops.begin() + s, q.ops.begin() + std::min(len, s + chunk));
      if (q.ops.empty()) continue;
      if (test(q)) { p = q; n = std::max<size_t>(n - 1, 2); reduced = true; break; }
    }
    if (!reduced) { if (chunk <= 1) break; n = std::min(n * 2, p.ops.size()); }
  }
  // greedy per-argument simplification: towards 0, then halving
  for (size_t i = 0; i < p.ops.size() && execs < budget && now_s() - t0 < secs; i++) {
    for (size_t j = 0; j < p.ops[i].a.size(); j++) {
      int64_t v = p.ops[i].a[j]; if (v == 0) continue;
      for (int64_t cand : {(int64_t)0, (int64_t)1, v / 2}) {
        if (cand == v || llabs(cand) >= llabs(v)) continue;
        Plan q = p; q.ops[i].a[j] = cand;
        if (test(q)) { p = q; break; }
      }
    }
  }
  ChildRes fin = run_child(sc, p), fin2 = run_child(sc, p);
  if (fin.cls != want || fin2.cls != want || fin.evhash != fin2.evhash) { printf("SHRINK nondeterministic %s %s\n", fin.cls.c_str(), fin2.cls.c_str()); return 4; }
  p.hdr["expect_class"] = want;
  p.hdr["expect_evhash"] = strf("%016llx", (unsigned long long)fin.evhash);
  p.hdr["variant"] = OPSIM_VARIANT;
  p.hdr["shrunk_from_ops"] = strf("%zu", orig);
  p.hdr["shrink_execs"] = strf("%d", execs);
  std::ofstream f(argv[3]); f << p.text(); f.close();
  printf("SHRINK ok %s ops=%zu->%zu execs=%d\n", want.c_str(), orig, p.ops.size(), execs);
  return 0;
}

int main(int argc, char **argv) {
  signal(SIGALRM, watchdog);
  setvbuf(stdout, nullptr, _IOLBF, 0);
  load_known();
  if (argc < 3) {
    fprintf(stderr, "usage: opsim run <prop> [--base B --from i --step s --count n --tier t --deadline s --samples k]\n"
                    "       opsim dump <prop> [--base B --index i | --seed S] [--tier t]\n"
                    "       opsim replay <plan> [--verbose]\n       opsim shrink <plan-in> <plan-out>\n       opsim list x\n");
    return 2;
  }
  std::string c = argv[1];
  if (c == "run") return cmd_run(argc, argv);
  if (c == "dump") return cmd_dump(argc, argv);
  if (c == "replay") return cmd_replay(argc, argv);
  if (c == "shrink") return cmd_shrink(argc, argv);
  if (c == "list") { for (auto &s : registry()) printf("%s %s\n", s.prop, s.name); return 0; }
  return 2;
}
