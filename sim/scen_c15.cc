// C15 — optimised (SIMD, run-time dispatched) kernels match the portable C code: whole-codec clause (netsim `archmix`).
// The CPU level is environment nondeterminism the library consults once per object (opus_select_arch at init); the simulator
// owns it through --wrap=opus_select_arch. Every object is replicated at every level 0..max of the host:
//   fixed-point builds: packets of all encoder replicas byte-identical, PCM of all decoder replicas bit-identical (PLC / FEC included);
//   float builds: every decoder replica, whatever its level and whatever the encoder's level, ends each packet with the encoder's
//                 final range and returns the same sample count; (the spread of normally decoded float PCM across levels is recorded as a probe, not judged).
#include "shim.h"
#include "session.h"

namespace {

struct ArchMix {
  Run &run; const char *prop = "C15";
  int nlev = 1;
  std::vector<std::unique_ptr<EncNode>> encs;                 // one per level
  std::vector<std::vector<std::unique_ptr<DecNode>>> decs;    // decs[a][b]: decoder at level b fed by encoder a's packets (fixed: only a = 0)
  Layout L; Source src; int64_t pos = 0; int dfs = 48000, dch = 2, dfmt = FMT_I16;
  int expert = OPUS_FRAMESIZE_ARG;
  bool concealed_recently = false;
  bool loud = false; char ctxbuf[64] = {0};   // 'harsh input' = a source at >= 0.4 of full scale, or a steady tonal / periodic source (tones, sweep, square, sine pair, chord,
  // clicks, DC) has been fed: the regime in which the noise-shaping quantiser's integer state saturates or wraps
  void ctx(const char *what, size_t level) { snprintf(ctxbuf, sizeof ctxbuf, "%s_level%zu%s", what, level, loud ? "_harsh_input" : ""); g_ctx = ctxbuf; }
  explicit ArchMix(Run &r) : run(r) {}
#ifdef OPSIM_FIXED
  static const bool kFixed = true;
#else
  static const bool kFixed = false;
#endif

  void op_new(const Op &op) {
    nlev = host_arch() + 1;
    Layout l; l.kind = (int)(((op.arg(0) % 2) + 2) % 2) == 0 ? K_SINGLE : K_SURROUND;
    l.fs = kRates[((op.arg(1) % 5) + 5) % 5]; l.app = kApps[((op.arg(3) % 3) + 3) % 3];
    int ch = (int)std::max<int64_t>(1, op.arg(2, 1));
    if (l.kind == K_SINGLE) l.ch = ch > 2 ? 2 : ch; else { l.family = 1; l.ch = std::min(ch, 6); }
    dfs = kRates[((op.arg(4) % 5) + 5) % 5]; dch = (int)(1 + ((op.arg(5) % 2) + 2) % 2); dfmt = (int)(((op.arg(6) % 3) + 3) % 3);
    encs.clear(); decs.clear();
    for (int a = 0; a < nlev; a++) {
      auto e = std::make_unique<EncNode>();
      if (e->create(l, (uint64_t)op.arg(7, 1), a) != OPUS_OK) { encs.clear(); return; }
      encs.push_back(std::move(e));
    }
    L = encs[0]->L;
    int nsets = kFixed ? 1 : nlev;
    decs.resize((size_t)nsets);
    for (int a = 0; a < nsets; a++) for (int b = 0; b < nlev; b++) {
      auto d = std::make_unique<DecNode>();
      if (d->create_for(*encs[(size_t)a], dfs, dch, b) != OPUS_OK) { encs.clear(); decs.clear(); return; }
      decs[(size_t)a].push_back(std::move(d));
    }
    run.count("replica_sets"); run.count("levels", nlev);
    pos = 0; expert = OPUS_FRAMESIZE_ARG; avx2_state_diverged = false;
  }
  void op_ctl(const Op &op) {
    if (encs.empty()) return;
    int r0 = 0;
    for (size_t a = 0; a < encs.size(); a++) { int r = encs[a]->set((int)op.arg(0), (int)op.arg(1)); if (a == 0) r0 = r; else if (r != r0) REPORT(run, prop, "ctl_result_differs_across_levels", "request %d level %zu: %d vs %d", (int)op.arg(0), a, r, r0); }
    run.ev((uint64_t)r0);
    if (r0 == OPUS_OK) { run.count("ctl_applied"); if (op.arg(0) == OPUS_SET_EXPERT_FRAME_DURATION_REQUEST) expert = (int)op.arg(1); }
  }
  void op_dctl(const Op &op) {
    for (auto &set : decs) for (auto &d : set) { if (op.arg(0) % 2 == 0) d->reset(); else d->set(OPUS_SET_GAIN_REQUEST, (int)op.arg(1)); }
  }

  // ENC fidx max_bytes fmt how : how 0 = deliver, 1 = lose (PLC), 2 = lose and recover with FEC from the next packet (approximated: FEC call on this packet first)
  void op_enc(const Op &op) {
    if (encs.empty()) return;
    int fi = (int)(((op.arg(0) % 9) + 9) % 9), max_bytes = (int)std::max<int64_t>(2, op.arg(1, 1500)), fmt = (int)(((op.arg(2) % 3) + 3) % 3), how = (int)(((op.arg(3) % 3) + 3) % 3);
    int frame = (int)((int64_t)kFrames48[fi] * L.fs / 48000);
    if (expert != OPUS_FRAMESIZE_ARG) return;
    std::vector<float> pcm((size_t)frame * L.ch);
    src_fill(src, L.fs, L.ch, pos, frame, pcm.data());
    if (src.fam == SRC_NONFINITE) fmt = FMT_F32;
    std::vector<Bytes> pk(encs.size()); std::vector<opus_uint32> rng(encs.size()); int r0 = 0;
    for (size_t a = 0; a < encs.size(); a++) {
      ctx("enc", a);
      int r = encs[a]->encode(pcm.data(), frame, max_bytes, fmt, pk[a]);
      rng[a] = encs[a]->final_range();
      if (a == 0) { r0 = r; run.ev((uint64_t)r); run.evb(pk[0].data(), pk[0].size()); }
      if ((r > 0) != (r0 > 0)) REPORT(run, prop, "encode_result_differs_across_levels", "level %zu returned %d, level 0 returned %d", a, r, r0);
      if (kFixed && a > 0 && (r != r0 || pk[a] != pk[0] || rng[a] != rng[0])) {
        size_t k = 0; while (k < pk[a].size() && k < pk[0].size() && pk[a][k] == pk[0][k]) k++;
        // the AVX2 noise-shaping quantiser deliberately does not reproduce an overflow of the C code ("more correct, but it won't overflow
        // like the C code in some rare cases", silk/x86/NSQ_del_dec_avx2.c): only the AVX2 replica of a SILK / hybrid packet differs
        bool others_agree = true; for (size_t b2 = 1; b2 < a; b2++) if (pk[b2] != pk[0]) others_agree = false;
        // (multistream: any stream of the packet coded by the SILK layer)
        bool any_silk = false;
        if (!pk[0].empty()) {
          int off = 0, ns = std::max(1, L.streams);
          for (int st_ = 0; st_ < ns && off < (int)pk[0].size(); st_++) {
            unsigned char toc_ = 0; int offs_[48], sizes_[48], po_ = 0, pko_ = 0, pado_ = 0, padl_ = 0;
            int nfr = opsim_parse_impl(pk[0].data() + off, (int)pk[0].size() - off, st_ < ns - 1, &toc_, offs_, sizes_, &po_, &pko_, &pado_, &padl_);
            if (nfr < 0) break;
            if (toc_mode(toc_) != 2) any_silk = true;
            if (pko_ <= 0) break;
            off += pko_;
          }
        }
        bool avx2_silk = loud && a == 4 && a + 1 == encs.size() && others_agree && !pk[0].empty() && (any_silk || avx2_state_diverged);
        // once the AVX2 replica's SILK state has diverged through that finding, its later packets (including the CELT-only packets after a
        // mode switch, whose prefill / redundancy comes from the SILK layer) follow from the same divergence and cannot be judged separately
        if (avx2_silk) avx2_state_diverged = true;
        if (getenv("OPSIM_CALIB")) fprintf(stderr, "C15AVX2 level=%zu others_agree=%d fam=%d amp=%lld mode=%d loud=%d\n", a, (int)others_agree, src.fam, (long long)src.amp, pk[0].empty() ? -1 : toc_mode(pk[0][0]), (int)loud);
        REPORT(run, prop, avx2_silk ? "fixed_point_packets_differ_avx2_only_silk_layer_harsh_input" : "fixed_point_packets_differ_across_levels", "level %zu: len %d vs %d, first difference at byte %zu, range %08x vs %08x (toc %02x frame %d; levels below it agree with level 0)", a, r, r0, k, rng[a], rng[0], pk[0].empty() ? 0 : pk[0][0], frame);
      }
      if (!kFixed && a > 0 && pk[a] != pk[0]) run.count("float_packets_differ_across_levels");
    }
    pos += frame;
    if (r0 <= 0) return;
    run.api_ok++; run.sim_samples48 += kFrames48[fi];
    static const char *mn[3] = {"mode_silk", "mode_hybrid", "mode_celt"};
    if (L.kind == K_SINGLE) run.count(mn[toc_mode(pk[0][0])]);
    run.sg(mix64((uint64_t)(pk[0][0] >> 2), (uint64_t)(fi * 4 + how)));
    int out = (int)((int64_t)kFrames48[fi] * dfs / 48000);
    for (size_t a = 0; a < decs.size(); a++) {
      uint64_t h0 = 0; int d0 = 0; std::vector<float> ref;
      for (size_t b = 0; b < decs[a].size(); b++) {
        DecNode &d = *decs[a][b]; uint64_t h = 0; std::vector<float> out_pcm; int dr;
        ctx("dec", b);
        bool fin = true;
        if (how == 1) dr = d.decode(nullptr, 0, out, 0, dfmt, &out_pcm, &h, nullptr, &fin);
        else if (how == 2) { dr = d.decode(pk[a].data(), (int)pk[a].size(), out, 1, dfmt, &out_pcm, &h, nullptr, &fin); }
        else dr = d.decode(pk[a].data(), (int)pk[a].size(), out, 0, dfmt, &out_pcm, &h, nullptr, &fin);
        if (b == 0) { h0 = h; d0 = dr; ref = out_pcm; if (a == 0) { run.ev((uint64_t)dr); if (kFixed) run.ev(h); } }
        if (dr != d0) REPORT(run, prop, "decode_count_differs_across_levels", "decoder level %zu (encoder level %zu): %d vs %d", b, a, dr, d0);
        (void)fin;
        if (how == 0) {
          opus_uint32 dg = d.final_range();
          if (dg != rng[a]) REPORT(run, prop, "final_range_mismatch_across_levels", "encoder level %zu range %08x, decoder level %zu range %08x (toc %02x len %zu)", a, rng[a], b, dg, pk[a][0], pk[a].size());
          run.count("range_checked");
        }
        if (kFixed) {
          if (h != h0) REPORT(run, prop, "fixed_point_pcm_differs_across_levels", "decoder level %zu vs level 0 (how %d, toc %02x, frame %d)", b, how, pk[a][0], frame);
          run.count("pcm_bitexact_checked");
        } else if (how == 0 && !concealed_recently && b > 0 && out_pcm.size() == ref.size()) {
          double md = 0, pk_ = 0; for (size_t i = 0; i < ref.size(); i++) { md = std::max(md, (double)fabsf(out_pcm[i] - ref[i])); pk_ = std::max(pk_, (double)fabsf(ref[i])); }
          long micro = (long)(md / (1.0 + pk_) * 1e6);
          if (run.stat["max:float_pcm_level_diff_micro"] < micro) run.stat["max:float_pcm_level_diff_micro"] = micro;
          run.count("float_pcm_closeness_checked");
          // probe only, no verdict: float PCM may legitimately diverge by more than rounding error (soft clipping near full scale and
          // concealment-based mode transitions take discrete decisions on float data; observed up to 0.15 on the unchanged tree)
        }
        run.api_ok++;
      }
    }
    if (how != 0) { concealed_recently = true; run.count(how == 1 ? "plc_steps" : "fec_steps"); run.fired = true; }
    else if (concealed_recently) { if (++clean_since >= 50) { concealed_recently = false; clean_since = 0; } }
  }
  int clean_since = 0; bool avx2_state_diverged = false;

  void go(const Plan &p) {
    for (size_t i = 0; i < p.ops.size(); i++) {
      const Op &op = p.ops[i]; run.cur_op = (int)i;
      if (op.k == "NEW") op_new(op);
      else if (op.k == "CTL") op_ctl(op);
      else if (op.k == "DCTL") op_dctl(op);
      else if (op.k == "SRC") { int f_ = (int)(((op.arg(0) % SRC_NFAM) + SRC_NFAM) % SRC_NFAM);
        if (op.arg(2) >= 400 || f_ == SRC_TONES || f_ == SRC_SWEEP || f_ == SRC_SQUARE || f_ == SRC_STEREO || f_ == SRC_MUSIC || f_ == SRC_CLICKS || f_ == SRC_DC) loud = true;
        src.fam = (int)(((op.arg(0) % SRC_NFAM) + SRC_NFAM) % SRC_NFAM); src.p0 = op.arg(1); src.amp = op.arg(2); src.seed = op.arg(3); src.p3 = op.arg(4); }
      else if (op.k == "ENC") op_enc(op);
    }
    if (nlev > 1) run.fired = true;
  }
};

Plan gen(uint64_t seed, int tier) {
  Rng r(seed);
  Plan p; p.hdr["scenario"] = "archmix";
  p.ops.push_back(mkop("NEW", {r.weighted({8, 1}), r.range(0, 4), r.range(1, 4), r.range(0, 2), r.range(0, 4), r.range(0, 1), r.range(0, 2), (int64_t)r.range(1, 1 << 30)}));
  auto &doms = enc_ctl_domains();
  auto push_ctl = [&]() {
    const CtlDom &d = doms[r.range(0, (int64_t)doms.size() - 1)];
    if (d.req == OPUS_SET_EXPERT_FRAME_DURATION_REQUEST) return;
    int v = d.legal[r.range(0, (int64_t)d.legal.size() - 1)];
    if (d.req == OPUS_SET_BITRATE_REQUEST && r.chance(0.5)) v = (int)r.range(6000, 200000);
    p.ops.push_back(mkop("CTL", {d.req, v}));
  };
  for (int i = (int)r.range(0, 4); i > 0; i--) push_ctl();
  if (r.chance(0.7)) p.ops.push_back(mkop("CTL", {11002, r.pick({1000, 1000, 1001, 1002})}));
  if (r.chance(0.4)) p.ops.push_back(mkop("CTL", {OPUS_SET_COMPLEXITY_REQUEST, r.pick({0, 2, 5, 8, 10, 10})}));
  if (r.chance(0.3)) { p.ops.push_back(mkop("CTL", {OPUS_SET_INBAND_FEC_REQUEST, 1})); p.ops.push_back(mkop("CTL", {OPUS_SET_PACKET_LOSS_PERC_REQUEST, r.pick({10, 30})})); }
  p.ops.push_back(mkop("SRC", {r.weighted({1, 0, 4, 2, 5, 4, 1, 2, 2, 0, 1, 1, 4, 1, 1, 2}), r.pick({60, 110, 220, 440, 1000, 3000, 7000}), r.pick({10, 100, 300, 500, 900, 1000, 2000}), r.range(1, 1000), r.range(0, 1000)}));
  int n = (int)(tier ? r.range(15, 80) : r.range(5, 25));
  int fidx = r.weighted({1, 2, 4, 8, 3, 2, 1, 1, 1});
  double ploss = r.pick({0.0, 0.0, 0.1, 0.3});
  for (int i = 0; i < n; i++) {
    if (r.chance(0.15)) push_ctl();
    if (r.chance(0.05)) p.ops.push_back(mkop("CTL", {11002, r.pick({1000, 1001, 1002, -1000})}));
    if (r.chance(0.06)) p.ops.push_back(mkop("SRC", {r.weighted({1, 0, 4, 2, 5, 4, 1, 2, 2, 0, 1, 1, 4, 1, 1, 2}), r.pick({60, 110, 220, 440, 1000, 3000, 7000}), r.pick({10, 100, 300, 500, 900, 1000, 2000}), r.range(1, 1000), r.range(0, 1000)}));
    if (r.chance(0.1)) fidx = r.weighted({1, 2, 4, 8, 3, 2, 1, 1, 1});
    if (r.chance(0.03)) p.ops.push_back(mkop("DCTL", {r.range(0, 1), r.pick({0, 256, -256, 3000})}));
    p.ops.push_back(mkop("ENC", {fidx, r.pick({1500, 1500, 1276, 300, 60, 20, 8}), r.range(0, 2), r.chance(ploss) ? r.range(1, 2) : 0}));
  }
  return p;
}

void exec(const Plan &p, Run &run) { ArchMix m(run); m.go(p); }

}  // namespace
REGISTER_SCENARIO(C15, "archmix", gen, exec);
