// C14 — independent codec instances do not interfere (threadsim, memtrace variant only).
// Plan layout:   TASK                      starts the op list of the next task (ENCNEW DECNEW SRC CTL ENC RP YIELD ...)
//                PRE mode val target       scheduling decisions, consumed in order (see threadsim.h)
// Oracles: (i) ownership / happens-before detector of tsanrt.cc reports no conflicting pair;
//          (ii) every task's observable results (event hash, status) equal those of the same task run alone.
#include "session.h"
#include "lockstep.h"
#ifdef OPSIM_MEMTRACE
#include "threadsim.h"

namespace {

struct TaskResult { uint64_t evhash = 0; std::string status = "ok", cls, detail; long api_ok = 0, sim48 = 0; std::map<std::string, long> stat; };

// repacketizer use inside a task: cat the two most recent packets when compatible, emit, split
static void op_rp(LockstepExec &x, Run &run, const Op &op) {
  if (x.last_pkt.empty() || x.S.enc.L.kind != K_SINGLE) return;
  OpusRepacketizer *rp = opus_repacketizer_create();
  if (!rp) return;
  int r1 = x.prev_pkt.empty() ? -1 : opus_repacketizer_cat(rp, x.prev_pkt.data(), (opus_int32)x.prev_pkt.size());
  int r2 = opus_repacketizer_cat(rp, x.last_pkt.data(), (opus_int32)x.last_pkt.size());
  run.ev((uint64_t)r1); run.ev((uint64_t)r2);
  int n = opus_repacketizer_get_nb_frames(rp);
  ExactBuf out(4000);
  int len = opus_repacketizer_out(rp, out.p, (opus_int32)(op.arg(0) % 2 ? 4000 : 1500));
  run.ev((uint64_t)len); if (len > 0) run.evb(out.p, (size_t)len);
  if (n > 1) { int l2 = opus_repacketizer_out_range(rp, n - 1, n, out.p, 1500); run.ev((uint64_t)l2); if (l2 > 0) run.evb(out.p, (size_t)l2); }
  if (len > 0) {
    int pl = opus_packet_pad(out.p, len, len + 7); run.ev((uint64_t)pl);
    int ul = opus_packet_unpad(out.p, len + 7); run.ev((uint64_t)ul);
  }
  opus_repacketizer_destroy(rp);
  run.count("rp_ops");
}

static TaskResult run_task_ops(const std::vector<Op> &ops) {
  TaskResult tr;
  Run run;
  g_rand_stream = nullptr; g_arch_cap = -1;
  try {
    LockstepExec x(run, "C14");
    for (auto &op : ops) {
      if (op.k == "YIELD") ts_yield((long)op.arg(0));
      else if (op.k == "RP") op_rp(x, run, op);
      else if (op.k == "PLC" || op.k == "FEC") {
        // receiver-side loss handling inside a task: concealment / FEC calls on every decoder replica of the task
        for (size_t i = 0; i < x.S.decs.size(); i++) {
          DecNode &d = *x.S.decs[i]; int n = (int)(1 + ((op.arg(0) % 24) + 24) % 24) * d.fs / 400; uint64_t h = 0; int r;
          if (op.k == "PLC" || x.last_pkt.empty()) r = d.decode(nullptr, 0, n, 0, x.S.dec_fmt[i], nullptr, &h);
          else r = d.decode(x.last_pkt.data(), (int)x.last_pkt.size(), n, 1, x.S.dec_fmt[i], nullptr, &h);
          run.ev((uint64_t)r); run.ev(h);
        }
        run.count(op.k == "PLC" ? "plc_ops" : "fec_ops");
      }
      else if (op.k == "DCTL") {   // decoder-side settings (gain, complexity, phase inversion) on every replica of the task
        static const int reqs[3] = {OPUS_SET_GAIN_REQUEST, OPUS_SET_COMPLEXITY_REQUEST, OPUS_SET_PHASE_INVERSION_DISABLED_REQUEST};
        for (auto &d : x.S.decs) run.ev((uint64_t)d->set(reqs[((op.arg(0) % 3) + 3) % 3], (int)op.arg(1)));
        run.count("dctl_ops");
      }
      else if (op.k == "DRESET") { for (auto &d : x.S.decs) { run.ev((uint64_t)d->reset()); } }
      else if (op.k == "DESTROY") { x.S.decs.clear(); x.S.dec_fmt.clear(); x.S.enc.destroy(); }
      else x.do_op(op);
    }
  } catch (Violation &v) { tr.status = "VIOL"; tr.cls = v.cls; tr.detail = v.detail; }
  catch (Fatal &f) { tr.status = "VIOL"; tr.cls = "assert"; tr.detail = f.where; }
  tr.evhash = run.evhash; tr.api_ok = run.api_ok; tr.sim48 = run.sim_samples48; tr.stat = run.stat;
  return tr;
}

void exec(const Plan &p, Run &run) {
  std::vector<std::vector<Op>> tasks; std::vector<TsPre> pre;
  for (auto &op : p.ops) {
    if (op.k == "TASK") { if (tasks.size() < TS_MAX_TASKS) tasks.emplace_back(); else tasks.back().push_back(mkop("NOP")); }
    else if (op.k == "PRE") pre.push_back(TsPre{(int)(((op.arg(0) % 2) + 2) % 2), (long)op.arg(1), (long)op.arg(2)});
    else if (!tasks.empty()) tasks.back().push_back(op);
  }
  size_t n = tasks.size();
  if (n == 0) return;
  // ---- phase 1: interleaved (must come first: lazily initialised state is written on first entry into the library)
  std::vector<TaskResult> inter(n), serial(n);
  std::vector<std::function<void()>> bodies(n);
  for (size_t i = 0; i < n; i++) bodies[i] = [&, i]() { inter[i] = run_task_ops(tasks[i]); };
  TsStats st;
  ts_run(bodies, pre, st);
  // ---- phase 2: every task alone (same slot, same stack region), nothing else running
  TsStats st2all;
  for (size_t i = 0; i < n; i++) {
    std::vector<std::function<void()>> solo(n);
    solo[i] = [&, i]() { serial[i] = run_task_ops(tasks[i]); };
    std::vector<TsPre> none; TsStats st2;
    ts_run(solo, none, st2);
    if (st2.per_task_accesses.size() > i && st.per_task_accesses.size() > i && st2.per_task_accesses[i] != st.per_task_accesses[i]) run.count("access_count_differs_from_serial");
  }
  // ---- bookkeeping
  run.count("tasks", (long)n); run.count("preemptions_fired", st.pre_fired); run.count("switches", st.switches);
  run.count("traced_accesses", st.accesses); run.count("rodata_reads", st.rodata_reads);
  run.count("nonowned_writable_reads", st.nonowned_writable_reads); run.count("nonowned_writable_writes", st.nonowned_writable_writes);
  run.count("sync_ops_seen", st.sync_ops); run.count("first_function_entries", st.func_first);
  run.count(strf("tasks_%zu", n));
  if (st.pre_fired > 0) run.fired = true;
  for (size_t i = 0; i < n; i++) {
    run.ev(inter[i].evhash); run.api_ok += inter[i].api_ok; run.sim_samples48 += inter[i].sim48;
    for (auto &kv : inter[i].stat) if (kv.first.rfind("mode_", 0) == 0 || kv.first == "rp_ops" || kv.first == "plc_ops" || kv.first == "fec_ops" || kv.first == "dctl_ops" || kv.first == "ctl_applied") run.count(kv.first, kv.second);
  }
  // signature = the interleaving actually executed: per-task access counts at the time of the run + switch count + preemptions
  run.sg((uint64_t)st.switches); run.sg((uint64_t)st.pre_fired);
  for (auto a : st.per_task_accesses) run.sg((uint64_t)a);
  for (auto &pp : pre) run.sg(mix64((uint64_t)pp.mode, mix64((uint64_t)pp.val, (uint64_t)pp.target)));
  // ---- oracle (i): detector
  if (!st.conflicts.empty()) {
    const TsConflict &c = st.conflicts[0];
    std::string all; for (auto &cc : st.conflicts) all += cc.detail + " ; ";
    REPORT(run, "C14", c.cls, "%s", all.c_str());
  }
  // ---- oracle (ii): equality with the serial reference
  for (size_t i = 0; i < n; i++) {
    if (inter[i].status != serial[i].status || inter[i].evhash != serial[i].evhash || inter[i].cls != serial[i].cls)
      REPORT(run, "C14", "task_diverged_from_serial", "task %zu interleaved %s/%s/%016llx vs alone %s/%s/%016llx (%s | %s)", i, inter[i].status.c_str(), inter[i].cls.c_str(),
             (unsigned long long)inter[i].evhash, serial[i].status.c_str(), serial[i].cls.c_str(), (unsigned long long)serial[i].evhash, inter[i].detail.c_str(), serial[i].detail.c_str());
  }
}

// one task's op list
void gen_task(Rng &r, std::vector<Op> &ops, int tier, int force_kind) {
  int kind = force_kind >= 0 ? force_kind : r.pick({(int)K_SINGLE, (int)K_SINGLE, (int)K_SINGLE, (int)K_SINGLE, (int)K_SURROUND, (int)K_MS, (int)K_PROJ});
  Layout l; gen_layout(r, l, kind, 6);
  ops.push_back(mkop("ENCNEW", {kind, r.range(0, 4), l.ch, r.range(0, 2), l.family, (int64_t)r.range(0, 1 << 20), r.chance(0.6) ? -1 : r.range(0, 4), (int64_t)r.range(1, 1 << 30)}));
  int ndec = (int)r.range(1, 2);
  for (int i = 0; i < ndec; i++) ops.push_back(mkop("DECNEW", {r.range(0, 4), r.range(0, 1), r.chance(0.6) ? -1 : r.range(0, 4), r.range(0, 2)}));
  auto &doms = enc_ctl_domains();
  auto push_ctl = [&]() {
    const CtlDom &d = doms[r.range(0, (int64_t)doms.size() - 1)];
    if (d.req == OPUS_SET_EXPERT_FRAME_DURATION_REQUEST) return;
    int v = d.legal[r.range(0, (int64_t)d.legal.size() - 1)];
    ops.push_back(mkop("CTL", {d.req, v}));
  };
  for (int i = (int)r.range(0, 3); i > 0; i--) push_ctl();
  if (r.chance(0.6)) ops.push_back(mkop("CTL", {11002, r.pick({1000, 1001, 1002})}));
  ops.push_back(mkop("SRC", {r.weighted({1, 0, 4, 2, 5, 3, 1, 1, 2, 0, 0, 1, 4, 1, 1, 2}), r.pick({110, 220, 440, 1000, 3000}), r.pick({100, 300, 500, 900}), r.range(1, 1000), r.range(0, 1000)}));
  int nfr = (int)(tier ? r.range(4, 30) : r.range(2, 10));
  int fidx = r.weighted({1, 1, 4, 8, 2, 1, 0, 0, 0});
  for (int i = 0; i < nfr; i++) {
    if (r.chance(0.15)) push_ctl();
    if (r.chance(0.1)) fidx = r.weighted({1, 1, 4, 8, 2, 1, 0, 0, 0});
    if (r.chance(0.05)) ops.push_back(mkop("CTL", {11002, r.pick({1000, 1001, 1002, -1000})}));
    ops.push_back(mkop("ENC", {fidx, r.pick({1500, 1500, 1276, 200, 40, 8}), r.range(0, 2)}));
    if (r.chance(0.15)) ops.push_back(mkop("RP", {r.range(0, 3)}));
    if (r.chance(0.12)) ops.push_back(mkop(r.chance(0.6) ? "PLC" : "FEC", {r.pick({3, 7, 7, 1, 15, 23})}));
    if (r.chance(0.02)) ops.push_back(mkop("DRESET"));
    if (r.chance(0.08)) ops.push_back(mkop("DCTL", {r.weighted({4, 1, 1}), r.pick({256, -256, 1536, 3000, -3000, 1, 5, 10, 0})}));
    if (r.chance(0.2)) ops.push_back(mkop("YIELD", {r.range(0, 7)}));
  }
  if (r.chance(0.5)) ops.push_back(mkop("DESTROY"));
}

Plan gen(uint64_t seed, int tier) {
  Rng r(seed);
  Plan p; p.hdr["scenario"] = "threadsim";
  int ntasks = (int)(tier ? r.range(2, 6) : r.range(2, 4));
  std::vector<std::vector<Op>> tasks((size_t)ntasks);
  gen_task(r, tasks[0], tier, -1);
  int kind0 = (int)tasks[0][0].arg(0);
  for (int i = 1; i < ntasks; i++) {
    // at least two tasks of the same kind; often the very same configuration (same tables, same lazy paths)
    if (i == 1 && r.chance(0.5)) tasks[1] = tasks[0];
    else gen_task(r, tasks[(size_t)i], tier, i == 1 ? kind0 : -1);
  }
  for (auto &t : tasks) { p.ops.push_back(mkop("TASK")); for (auto &o : t) p.ops.push_back(o); }
  // schedule: PCT-style — few preemptions at random depths, depth distribution varied per run
  int npre = r.pick({0, 1, 2, 3, 5, 10, 30, 100, 200});
  int style = r.weighted({3, 2, 2});   // 0 log-uniform depths, 1 early (lazy-init windows), 2 fine-grained
  for (int i = 0; i < npre; i++) {
    if (style == 1 && i < 12) {
      if (r.chance(0.6)) p.ops.push_back(mkop("PRE", {1, r.range(1, 12), r.range(0, 7)}));
      else p.ops.push_back(mkop("PRE", {0, r.range(1, 400), r.range(0, 7)}));
    } else if (style == 2) {
      p.ops.push_back(mkop("PRE", {0, r.range(1, 5000), r.range(0, 7)}));
    } else {
      double e = r.unit() * 6.3;   // 1 .. ~2e6
      if (r.chance(0.15)) p.ops.push_back(mkop("PRE", {1, r.range(1, 40), r.range(0, 7)}));
      else p.ops.push_back(mkop("PRE", {0, (int64_t)pow(10.0, e), r.range(0, 7)}));
    }
  }
  return p;
}

}  // namespace
REGISTER_SCENARIO_FORK(C14, "threadsim", gen, exec);
#endif
