// Real libopus objects wrapped as simulation nodes: encoders and decoders of every kind, with
// exact-size heap buffers around every call (ASan redzones / canaries), per-object rand() streams
// and simulator-chosen CPU level.
#pragma once
#include "core.h"
#include "sources.h"
#include "framing.h"
extern "C" {
#include "opus.h"
#include "opus_multistream.h"
#include "opus_projection.h"
}
#include "shim.h"

#if defined(__has_feature)
#if __has_feature(address_sanitizer)
#define OPSIM_ASAN 1
#endif
#endif
#if defined(__SANITIZE_ADDRESS__)
#define OPSIM_ASAN 1
#endif

enum { K_SINGLE = 0, K_MS = 1, K_SURROUND = 2, K_PROJ = 3 };
enum { FMT_I16 = 0, FMT_I24 = 1, FMT_F32 = 2 };
static const int kRates[5] = {8000, 12000, 16000, 24000, 48000};
static const int kApps[3] = {OPUS_APPLICATION_VOIP, OPUS_APPLICATION_AUDIO, OPUS_APPLICATION_RESTRICTED_LOWDELAY};
// frame sizes in 48 kHz samples: 2.5 5 10 20 40 60 80 100 120 ms
static const int kFrames48[9] = {120, 240, 480, 960, 1920, 2880, 3840, 4800, 5760};

// exact-size heap block with a canary tail in non-ASan builds
struct ExactBuf {
  unsigned char *p = nullptr; size_t n = 0;
  static const int TAIL = 32;
  explicit ExactBuf(size_t bytes, int fill = 0x5A) : n(bytes) {
#ifdef OPSIM_ASAN
    p = (unsigned char *)sim_malloc(bytes ? bytes : 1);
#else
    p = (unsigned char *)sim_malloc(bytes + TAIL);
    memset(p + bytes, 0xC7, TAIL);
#endif
    memset(p, fill, bytes);
  }
  bool tail_ok() const {
#ifndef OPSIM_ASAN
    for (int i = 0; i < TAIL; i++) if (p[n + i] != 0xC7) return false;
#endif
    return true;
  }
  ~ExactBuf() { sim_free(p); }
  ExactBuf(const ExactBuf &) = delete;
  ExactBuf &operator=(const ExactBuf &) = delete;
};

struct Layout {
  int kind = K_SINGLE, fs = 48000, ch = 1, app = OPUS_APPLICATION_AUDIO;
  int family = 0, streams = 1, coupled = 0;
  unsigned char mapping[256] = {0};
};

struct EncNode {
  Layout L;
  OpusEncoder *e = nullptr; OpusMSEncoder *ms = nullptr; OpusProjectionEncoder *pj = nullptr;
  Rng rs{1};          // rand() stream of this logical object (FUZZING decisions)
  int arch_cap = -1;
  ~EncNode() { destroy(); }
  void destroy() {
    if (e) opus_encoder_destroy(e); if (ms) opus_multistream_encoder_destroy(ms); if (pj) opus_projection_encoder_destroy(pj);
    e = nullptr; ms = nullptr; pj = nullptr;
  }
  bool alive() const { return e || ms || pj; }
  // returns the error code from create; L.streams/coupled/mapping filled for surround/projection
  int create(const Layout &l, uint64_t rseed, int cap) {
    destroy(); L = l; rs.reseed(rseed); arch_cap = cap;
    int err = OPUS_OK; g_rand_stream = &rs; g_arch_cap = cap;
    switch (L.kind) {
      case K_SINGLE: e = opus_encoder_create(L.fs, L.ch, L.app, &err); L.streams = 1; L.coupled = L.ch == 2; break;
      case K_MS: ms = opus_multistream_encoder_create(L.fs, L.ch, L.streams, L.coupled, L.mapping, L.app, &err); break;
      case K_SURROUND: ms = opus_multistream_surround_encoder_create(L.fs, L.ch, L.family, &L.streams, &L.coupled, L.mapping, L.app, &err); break;
      case K_PROJ: pj = opus_projection_ambisonics_encoder_create(L.fs, L.ch, L.family, &L.streams, &L.coupled, L.app, &err); break;
    }
    g_arch_cap = -1;
    return err;
  }
  int set(int req, int val) {
    g_rand_stream = &rs; g_arch_cap = arch_cap;
    int r = e ? opus_encoder_ctl(e, req, val) : ms ? opus_multistream_encoder_ctl(ms, req, val) : opus_projection_encoder_ctl(pj, req, val);
    g_arch_cap = -1; return r;
  }
  int get(int req, opus_int32 *val) {
    return e ? opus_encoder_ctl(e, req, val) : ms ? opus_multistream_encoder_ctl(ms, req, val) : opus_projection_encoder_ctl(pj, req, val);
  }
  int reset() {
    g_rand_stream = &rs; g_arch_cap = arch_cap;
    int r = e ? opus_encoder_ctl(e, OPUS_RESET_STATE) : ms ? opus_multistream_encoder_ctl(ms, OPUS_RESET_STATE) : opus_projection_encoder_ctl(pj, OPUS_RESET_STATE);
    g_arch_cap = -1; return r;
  }
  opus_uint32 final_range() { opus_uint32 r = 0; if (e) opus_encoder_ctl(e, OPUS_GET_FINAL_RANGE(&r)); else if (ms) opus_multistream_encoder_ctl(ms, OPUS_GET_FINAL_RANGE(&r)); else if (pj) opus_projection_encoder_ctl(pj, OPUS_GET_FINAL_RANGE(&r)); return r; }
  // encode frame_size samples/channel of interleaved float pcm through the given API format.
  // out receives the packet on success. 'canary_ok' reports the tail check.
  int encode(const float *pcm, int frame_size, int max_bytes, int fmt, Bytes &out, bool *canary_ok = nullptr) {
    size_t ns = (size_t)(frame_size > 0 ? frame_size : 0) * L.ch;
    ExactBuf ob(max_bytes > 0 ? (size_t)max_bytes : 0);
    int ret;
    g_rand_stream = &rs;
    if (fmt == FMT_F32) {
      ExactBuf ib(ns * sizeof(float)); memcpy(ib.p, pcm, ns * sizeof(float));
      const float *in = (const float *)ib.p;
      ret = e ? opus_encode_float(e, in, frame_size, ob.p, max_bytes) : ms ? opus_multistream_encode_float(ms, in, frame_size, ob.p, max_bytes)
              : opus_projection_encode_float(pj, in, frame_size, ob.p, max_bytes);
    } else if (fmt == FMT_I16) {
      ExactBuf ib(ns * sizeof(opus_int16)); opus_int16 *in = (opus_int16 *)ib.p;
      for (size_t i = 0; i < ns; i++) { float v = pcm[i] * 32768.f; in[i] = !(v == v) ? 0 : v > 32767.f ? 32767 : v < -32768.f ? -32768 : (opus_int16)lrintf(v); }
      ret = e ? opus_encode(e, in, frame_size, ob.p, max_bytes) : ms ? opus_multistream_encode(ms, in, frame_size, ob.p, max_bytes)
              : opus_projection_encode(pj, in, frame_size, ob.p, max_bytes);
    } else {
      ExactBuf ib(ns * sizeof(opus_int32)); opus_int32 *in = (opus_int32 *)ib.p;
      for (size_t i = 0; i < ns; i++) { float v = pcm[i] * 8388608.f; in[i] = !(v == v) ? 0 : v > 8388607.f ? 8388607 : v < -8388608.f ? -8388608 : (opus_int32)lrintf(v); }
      ret = e ? opus_encode24(e, in, frame_size, ob.p, max_bytes) : ms ? opus_multistream_encode24(ms, in, frame_size, ob.p, max_bytes)
              : opus_projection_encode24(pj, in, frame_size, ob.p, max_bytes);
    }
    if (canary_ok) *canary_ok = ob.tail_ok();
    out.clear();
    if (ret > 0 && ret <= max_bytes) out.assign(ob.p, ob.p + ret);
    return ret;
  }
};

struct DecNode {
  int kind = K_SINGLE, fs = 48000, ch = 1;
  Layout L;   // for ms / projection
  OpusDecoder *d = nullptr; OpusMSDecoder *ms = nullptr; OpusProjectionDecoder *pj = nullptr;
  int arch_cap = -1;
  ~DecNode() { destroy(); }
  void destroy() {
    if (d) opus_decoder_destroy(d); if (ms) opus_multistream_decoder_destroy(ms); if (pj) opus_projection_decoder_destroy(pj);
    d = nullptr; ms = nullptr; pj = nullptr;
  }
  bool alive() const { return d || ms || pj; }
  int create_single(int fs_, int ch_, int cap) {
    destroy(); kind = K_SINGLE; fs = fs_; ch = ch_; arch_cap = cap; int err = 0; g_arch_cap = cap;
    d = opus_decoder_create(fs, ch, &err); g_arch_cap = -1; return err;
  }
  int create_ms(int fs_, const Layout &l, int cap) {
    destroy(); kind = K_MS; fs = fs_; ch = l.ch; L = l; arch_cap = cap; int err = 0; g_arch_cap = cap;
    ms = opus_multistream_decoder_create(fs, l.ch, l.streams, l.coupled, l.mapping, &err); g_arch_cap = -1; return err;
  }
  int create_proj(int fs_, const Layout &l, unsigned char *matrix, opus_int32 msize, int cap) {
    destroy(); kind = K_PROJ; fs = fs_; ch = l.ch; L = l; arch_cap = cap; int err = 0; g_arch_cap = cap;
    pj = opus_projection_decoder_create(fs, l.ch, l.streams, l.coupled, matrix, msize, &err); g_arch_cap = -1; return err;
  }
  // decoder matching an encoder (same layout), at output rate fs_ (single: channels ch_)
  int create_for(EncNode &en, int fs_, int ch_, int cap) {
    if (en.L.kind == K_SINGLE) return create_single(fs_, ch_, cap);
    if (en.L.kind == K_PROJ) {
      opus_int32 msize = 0;
      int r = opus_projection_encoder_ctl(en.pj, OPUS_PROJECTION_GET_DEMIXING_MATRIX_SIZE(&msize));
      if (r != OPUS_OK || msize <= 0) return OPUS_INTERNAL_ERROR;
      ExactBuf m((size_t)msize);
      r = opus_projection_encoder_ctl(en.pj, OPUS_PROJECTION_GET_DEMIXING_MATRIX(m.p, msize));
      if (r != OPUS_OK) return r;
      return create_proj(fs_, en.L, m.p, msize, cap);
    }
    return create_ms(fs_, en.L, cap);
  }
  int set(int req, int val) { return d ? opus_decoder_ctl(d, req, val) : ms ? opus_multistream_decoder_ctl(ms, req, val) : opus_projection_decoder_ctl(pj, req, val); }
  int get(int req, opus_int32 *val) { return d ? opus_decoder_ctl(d, req, val) : ms ? opus_multistream_decoder_ctl(ms, req, val) : opus_projection_decoder_ctl(pj, req, val); }
  int reset() { return d ? opus_decoder_ctl(d, OPUS_RESET_STATE) : ms ? opus_multistream_decoder_ctl(ms, OPUS_RESET_STATE) : opus_projection_decoder_ctl(pj, OPUS_RESET_STATE); }
  opus_uint32 final_range() { opus_uint32 r = 0; if (d) opus_decoder_ctl(d, OPUS_GET_FINAL_RANGE(&r)); else if (ms) opus_multistream_decoder_ctl(ms, OPUS_GET_FINAL_RANGE(&r)); else if (pj) opus_projection_decoder_ctl(pj, OPUS_GET_FINAL_RANGE(&r)); return r; }

  // One decode call. data==nullptr => loss. The packet is copied into an exact-size heap block,
  // the PCM buffer is an exact-size block of frame_size*ch samples pre-filled with a pattern.
  // pcm_out (optional) receives ret*ch samples converted to float (int16: /32768, int24: /2^23).
  // raw_hash receives a hash of the raw output samples (bit-exact comparisons).
  int decode(const unsigned char *data, int len, int frame_size, int fec, int fmt, std::vector<float> *pcm_out,
             uint64_t *raw_hash = nullptr, bool *canary_ok = nullptr, bool *finite = nullptr, bool nulldata_keep_len = false) {
    size_t ss = fmt == FMT_I16 ? 2 : 4;
    size_t cap = (size_t)(frame_size > 0 ? frame_size : 0) * ch;
    ExactBuf ob(cap * ss, 0xFF);   // float: NaN everywhere, so a returned sample that was never written shows up as non-finite
    ExactBuf pk(data && len > 0 ? (size_t)len : 0);
    const unsigned char *pp = nullptr;
    if (data) { if (len > 0) memcpy(pk.p, data, (size_t)len); pp = pk.p; }
    (void)nulldata_keep_len;
    int ret;
    if (fmt == FMT_I16) ret = d ? opus_decode(d, pp, len, (opus_int16 *)ob.p, frame_size, fec) : ms ? opus_multistream_decode(ms, pp, len, (opus_int16 *)ob.p, frame_size, fec)
                                : opus_projection_decode(pj, pp, len, (opus_int16 *)ob.p, frame_size, fec);
    else if (fmt == FMT_I24) ret = d ? opus_decode24(d, pp, len, (opus_int32 *)ob.p, frame_size, fec) : ms ? opus_multistream_decode24(ms, pp, len, (opus_int32 *)ob.p, frame_size, fec)
                                     : opus_projection_decode24(pj, pp, len, (opus_int32 *)ob.p, frame_size, fec);
    else ret = d ? opus_decode_float(d, pp, len, (float *)ob.p, frame_size, fec) : ms ? opus_multistream_decode_float(ms, pp, len, (float *)ob.p, frame_size, fec)
               : opus_projection_decode_float(pj, pp, len, (float *)ob.p, frame_size, fec);
    if (canary_ok) *canary_ok = ob.tail_ok();
    bool fin = true;
    if (ret > 0 && (size_t)ret <= (size_t)(frame_size > 0 ? frame_size : 0)) {
      size_t ns = (size_t)ret * ch;
      if (raw_hash) *raw_hash = hash_bytes(ob.p, ns * ss);
      if (pcm_out) pcm_out->resize(ns);
      for (size_t i = 0; i < ns; i++) {
        float v;
        if (fmt == FMT_I16) v = ((opus_int16 *)ob.p)[i] / 32768.f;
        else if (fmt == FMT_I24) v = ((opus_int32 *)ob.p)[i] / 8388608.f;
        else { v = ((float *)ob.p)[i]; if (!std::isfinite(v)) fin = false; }
        if (pcm_out) (*pcm_out)[i] = v;
      }
    } else { if (pcm_out) pcm_out->clear(); if (raw_hash) *raw_hash = 0; }
    if (finite) *finite = fin;
    return ret;
  }
};

// ------------------------------------------------------------------ layout generation
// valid channel counts for projection (family 3) and ambisonics (family 2) that keep runs cheap
static inline void gen_layout(Rng &r, Layout &l, int kind, int max_ch) {
  l.kind = kind;
  l.fs = kRates[r.range(0, 4)];
  l.app = kApps[r.weighted({3, 4, 2})];
  memset(l.mapping, 0, sizeof l.mapping);
  switch (kind) {
    case K_SINGLE: l.ch = (int)r.range(1, 2); l.family = 0; l.streams = 1; l.coupled = l.ch - 1; break;
    case K_MS: {
      // explicit layout: streams, coupled, mapping with duplicates and 255 (silent) entries
      l.streams = (int)r.range(1, std::min(max_ch >= 12 ? 12 : 4, max_ch));   // (many-stream layouts only where the caller asks for 12 channels or more: the tight multistream sessions)
      l.coupled = (int)r.range(0, l.streams);
      int src = l.streams + l.coupled;
      l.ch = (int)r.range(1, std::min(max_ch, src + 2));
      for (int i = 0; i < l.ch; i++) l.mapping[i] = r.chance(0.12) ? 255 : (unsigned char)r.range(0, src - 1);
      // an encoder needs every stream channel to be fed by some input channel: make the mapping cover when possible
      if (l.ch >= src && r.chance(0.8)) for (int i = 0; i < src; i++) l.mapping[i] = (unsigned char)i;
      l.family = -1;
      break;
    }
    case K_SURROUND: {
      int fam = r.pick({0, 1, 1, 1, 2, 255});
      l.family = fam;
      if (fam == 0) l.ch = (int)r.range(1, 2);
      else if (fam == 1) l.ch = (int)r.range(1, std::min(8, max_ch));
      else if (fam == 2) { static const int c[] = {1, 4, 6, 9, 11, 16, 18}; int k = (int)r.range(0, 6); while (c[k] > max_ch && k > 0) k--; l.ch = c[k]; }
      else l.ch = (int)r.range(1, max_ch);
      break;
    }
    case K_PROJ: {
      static const int c[] = {4, 6, 9, 11, 16, 18}; int k = (int)r.range(0, 5); while (c[k] > max_ch && k > 0) k--; l.ch = c[k]; l.family = 3; break;
    }
  }
}
